"""Deterministic thread scheduler: real Python threads, exactly one holds the baton; a seeded policy
decides at every pre-emption point which thread runs next.

Pre-emption points:
  * every 'line' event of a frame whose code lives in one of `trace_dirs` (the lsprotocol package);
  * 'call' events of a per-run seeded subset of named dependency functions ("buggify" sites);
  * explicit `sched.yield_point(site)` calls made by the workload driver between operations;
  * SimLock acquire/release (locks created by the system under test, if it ever uses any).
Dependency code between two such points runs atomically.  Every simulated schedule is a feasible
real schedule (CPython may release the GIL between any two bytecodes), so a failure found here is a
real failure; the restriction only loses coverage.

The decision trace is recorded run-length encoded as [[thread, steps], ...]; policy "trace" replays
such a list exactly (falling back to the lowest runnable thread when the trace names a thread that
is not runnable, which only happens for minimised/edited traces).
"""
from __future__ import annotations

import hashlib
import os
import random
import sys
import threading
from typing import Any, Callable, Dict, List, Optional, Sequence, Tuple

_real_allocate_lock = threading._allocate_lock  # type: ignore[attr-defined]


_PROTECTED_LINES: Dict[str, Any] = {}


def _protected_lines(filename: str) -> Any:
    """Source lines of a file inside `finally:` / `except` blocks (clean-up code) and the texts of all
    lines.  An injected interrupt is not delivered there: no maintainer calls clean-up code that an
    asynchronous exception can cut in half a defect, and flagging it would be an alarm on code where
    the property holds."""
    got = _PROTECTED_LINES.get(filename)
    if got is None:
        import ast

        lines: set = set()
        text: List[str] = []
        try:
            with open(filename, encoding="utf-8") as f:
                src = f.read()
            text = src.splitlines()
            for node in ast.walk(ast.parse(src)):
                if isinstance(node, ast.Try) or node.__class__.__name__ == "TryStar":
                    for blk in [node.finalbody] + [h.body for h in node.handlers]:
                        for st in blk:
                            lines.update(range(st.lineno, (st.end_lineno or st.lineno) + 1))
        except Exception:
            pass
        got = _PROTECTED_LINES[filename] = (lines, text)
    return got


def _no_interrupt_here(site: Tuple, prev: Any) -> bool:
    """True where an injected interrupt is postponed: inside clean-up blocks, and on the statement right
    after a lock was taken by hand (`x.acquire()` followed by `try:`)."""
    try:
        if not (site and hasattr(site[0], "co_filename")):
            return False
        lines, text = _protected_lines(site[0].co_filename)
        if site[1] in lines:
            return True
        if prev is not None and hasattr(prev[0], "co_filename") and prev[0] is site[0]:
            pl = prev[1]
            if 0 < pl <= len(text) and ".acquire(" in text[pl - 1]:
                return True
    except Exception:
        return False
    return False


class SimAbort(BaseException):
    """Raised inside simulated threads to unwind them (step cap, deadlock, harness abort)."""


class Deadlock(Exception):
    pass


class StepCap(Exception):
    pass


NEW, RUNNABLE, BLOCKED, DONE = "new", "runnable", "blocked", "done"


class Policy:
    """Chooses the next thread at each step."""

    def __init__(self, spec: Dict[str, Any], rnd: random.Random, n: int):
        self.spec = spec
        self.kind = spec["kind"]
        self.rnd = rnd
        self.n = n
        if self.kind == "pct":
            order = list(range(n))
            rnd.shuffle(order)
            # higher value = higher priority
            self.prio = {t: n - i + spec.get("d", 1) for i, t in enumerate(order)}
            est = max(10, int(spec.get("est_steps", 4000)))
            self.change_at = sorted(rnd.randrange(1, est) for _ in range(spec.get("d", 1)))
            self.next_low = spec.get("d", 1)
        elif self.kind == "trace":
            self.segments = [list(s) for s in spec["trace"]]
            self.seg_i = 0
            self.seg_left = self.segments[0][1] if self.segments else 0
        elif self.kind == "delay":
            self.victim = rnd.randrange(n)
            self.delay_from = rnd.randrange(0, max(1, int(spec.get("est_steps", 4000))))
            self.delay_len = int(spec.get("k", 500))

    def choose(self, step: int, cur: Optional[int], runnable: Sequence[int]) -> int:
        """runnable is sorted, non-empty."""
        k = self.kind
        if k == "trace":
            while self.seg_i < len(self.segments) and self.seg_left <= 0:
                self.seg_i += 1
                if self.seg_i < len(self.segments):
                    self.seg_left = self.segments[self.seg_i][1]
            if self.seg_i < len(self.segments):
                t = self.segments[self.seg_i][0]
                self.seg_left -= 1
                if t in runnable:
                    return t
            # trace exhausted or names a non-runnable thread: deterministic fallback
            if cur is not None and cur in runnable:
                return cur
            return runnable[0]
        if len(runnable) == 1:
            # still draw nothing: keeps the stream aligned with "decisions that had a choice"
            return runnable[0]
        if k == "uniform":
            return runnable[self.rnd.randrange(len(runnable))]
        if k == "sticky":
            if cur is not None and cur in runnable and self.rnd.random() >= self.spec["p"]:
                return cur
            others = [t for t in runnable if t != cur] or list(runnable)
            return others[self.rnd.randrange(len(others))]
        if k == "pct":
            while self.change_at and step >= self.change_at[0]:
                self.change_at.pop(0)
                if cur is not None:
                    self.next_low -= 1
                    self.prio[cur] = self.next_low
            return max(runnable, key=lambda t: (self.prio[t], -t))
        if k == "delay":
            cand = list(runnable)
            if self.delay_from <= step < self.delay_from + self.delay_len and len(cand) > 1:
                cand = [t for t in cand if t != self.victim] or cand
            if cur is not None and cur in cand and self.rnd.random() >= self.spec.get("p", 0.02):
                return cur
            return cand[self.rnd.randrange(len(cand))]
        if k == "sequential":
            if cur is not None and cur in runnable:
                return cur
            return runnable[0]
        raise ValueError(f"unknown policy {k}")


class SimLock:
    """Scheduler-aware replacement for threading.Lock / RLock objects created by the system under
    test: blocking happens in the scheduler, not in C, so the baton is never lost."""

    def __init__(self, sched: "Scheduler", reentrant: bool = False):
        self.sched = sched
        self.reentrant = reentrant
        self.owner: Optional[int] = None
        self.count = 0
        self._fallback = _real_allocate_lock()

    def _me(self) -> Optional[int]:
        return self.sched.thread_index()

    def acquire(self, blocking: bool = True, timeout: float = -1) -> bool:
        me = self._me()
        if me is None or not self.sched.active:  # not a simulated thread: behave like a real lock
            return self._fallback.acquire(blocking, timeout)
        self.sched.yield_point(("lock", "acquire"))
        while True:
            if self.owner is None or (self.reentrant and self.owner == me):
                self.owner = me
                self.count += 1
                return True
            if not blocking:
                return False
            self.sched.block_current(self)

    def release(self) -> None:
        me = self._me()
        if me is None or not self.sched.active:
            self._fallback.release()
            return
        if self.owner != me:
            raise RuntimeError("release unlocked lock")
        self.count -= 1
        if self.count == 0:
            self.owner = None
            self.sched.wake_waiters(self)
        self.sched.yield_point(("lock", "release"))

    def locked(self) -> bool:
        return self.owner is not None or self._fallback.locked()

    __enter__ = acquire

    def __exit__(self, *a: Any) -> None:
        self.release()


class SimEvent:
    """Scheduler-aware threading.Event for the system under test."""

    def __init__(self, sched: "Scheduler"):
        self.sched = sched
        self._flag = False
        self._real = threading.Event() if False else None

    def is_set(self) -> bool:
        return self._flag

    isSet = is_set

    def set(self) -> None:
        self._flag = True
        self.sched.wake_waiters(self)
        self.sched.yield_point(("event", "set"))

    def clear(self) -> None:
        self._flag = False

    def wait(self, timeout: Optional[float] = None) -> bool:
        self.sched.yield_point(("event", "wait"))
        if self.sched.thread_index() is None or not self.sched.active:
            return self._flag
        while not self._flag:
            if timeout is not None:
                # a timed wait may legally expire: model it as expiring after one scheduling round
                self.sched.yield_point(("event", "timed-wait"))
                return self._flag
            self.sched.block_current(self)
        return True


class SimCondition:
    """Scheduler-aware threading.Condition (wait / notify / notify_all) over a SimLock."""

    def __init__(self, sched: "Scheduler", lock: Any = None):
        self.sched = sched
        self._lock = lock if lock is not None else SimLock(sched, reentrant=True)
        self._waiters: List[Any] = []
        self.acquire = self._lock.acquire
        self.release = self._lock.release

    def __enter__(self) -> Any:
        return self._lock.__enter__()

    def __exit__(self, *a: Any) -> None:
        self._lock.__exit__(*a)

    def wait(self, timeout: Optional[float] = None) -> bool:
        token = object()
        self._waiters.append(token)
        saved = (self._lock.owner, self._lock.count)
        self._lock.owner, self._lock.count = None, 0
        self.sched.wake_waiters(self._lock)
        try:
            if timeout is not None:
                self.sched.yield_point(("cond", "timed-wait"))
                got = token not in self._waiters
            else:
                while token in self._waiters:
                    self.sched.block_current(token)
                got = True
        finally:
            if token in self._waiters:
                self._waiters.remove(token)
            while self._lock.owner is not None and self._lock.owner != saved[0]:
                self.sched.block_current(self._lock)
            self._lock.owner, self._lock.count = saved
        return got

    def wait_for(self, predicate: Any, timeout: Optional[float] = None) -> Any:
        r = predicate()
        while not r:
            if not self.wait(timeout) and timeout is not None:
                return predicate()
            r = predicate()
        return r

    def notify(self, n: int = 1) -> None:
        for token in self._waiters[:n]:
            self._waiters.remove(token)
            self.sched.wake_waiters(token)

    def notify_all(self) -> None:
        self.notify(len(self._waiters))

    notifyAll = notify_all


class Scheduler:
    def __init__(
        self,
        n: int,
        policy_spec: Dict[str, Any],
        seed: int,
        trace_dirs: Sequence[str],
        buggify_calls: Sequence[str] = (),
        start_after: Optional[Sequence[int]] = None,
        step_cap: int = 400_000,
        extra_trace_files: Sequence[str] = (),
        use_monitoring: Optional[bool] = None,
    ):
        if use_monitoring is None:
            use_monitoring = hasattr(sys, "monitoring") and os.environ.get("VERIF_SETTRACE") != "1"
        self.use_monitoring = use_monitoring and n > 1
        self._arm: Dict[int, List[Any]] = {}
        self.injected = 0
        self.n = n
        self.rnd = random.Random(seed)
        self.policy = Policy(policy_spec, self.rnd, n)
        self.trace_dirs = tuple(os.path.join(os.path.realpath(d), "") for d in trace_dirs)
        self.extra_trace_files = frozenset(extra_trace_files)
        self._file_cache: Dict[str, bool] = {}
        self.buggify_calls = frozenset(buggify_calls)
        self.start_after = list(start_after or [0] * n)
        self.step_cap = step_cap
        self.state = [NEW] * n
        self.waiting_on: List[Any] = [None] * n
        self.sems = [_real_allocate_lock() for _ in range(n)]
        for s in self.sems:
            s.acquire()
        self.main_sem = _real_allocate_lock()
        self.main_sem.acquire()
        self.current: Optional[int] = None
        self.active = False
        self.abort: Optional[BaseException] = None
        self.steps = 0
        self.decisions: List[List[int]] = []
        self.switches = 0
        self.switch_hash = hashlib.sha256()
        self.switch_sites: Dict[str, int] = {}
        self.idents: Dict[int, int] = {}
        self._ident: List[int] = [0] * n
        self.threads: List[threading.Thread] = []
        self.errors: List[Optional[BaseException]] = [None] * n
        self.probe_cb: Optional[Callable[[int, int, Tuple], None]] = None
        self.on_step: Optional[Callable[[int, Tuple], None]] = None
        self.pos: List[Tuple] = [("start", 0)] * n  # last site per thread
        self._el_cache: Optional[List[int]] = None
        self._el_valid_until: float = 0
        self.fair_run = 100_000
        self.fair_quantum = 30_000
        self._benched: Dict[int, int] = {}
        self._run_len = 0
        self.forced_switches = 0

    # -- identification ------------------------------------------------------------------
    def thread_index(self) -> Optional[int]:
        return self.idents.get(threading.get_ident())

    # -- tracing -------------------------------------------------------------------------
    def _traced_file(self, fn: str) -> bool:
        r = self._file_cache.get(fn)
        if r is None:
            r = fn.startswith(self.trace_dirs) or fn in self.extra_trace_files
            self._file_cache[fn] = r
        return r

    def _gtrace(self, frame: Any, event: str, arg: Any) -> Any:
        code = frame.f_code
        if self._traced_file(code.co_filename):
            return self._ltrace
        if self.buggify_calls and code.co_name in self.buggify_calls:
            self.yield_point(("call", code.co_name))
        return None

    def _ltrace(self, frame: Any, event: str, arg: Any) -> Any:
        if event == "line":
            self.yield_point((frame.f_code, frame.f_lineno))
        return self._ltrace

    @staticmethod
    def site_name(site: Tuple) -> Tuple:
        """(file, line, function) for a site; line sites carry the code object (cheap to record)."""
        if site and hasattr(site[0], "co_filename"):
            return (os.path.basename(site[0].co_filename), site[1], site[0].co_name)
        return tuple(site)

    # -- sys.monitoring (PEP 669) variant: no overhead outside the traced files ------------------
    def _mon_line(self, code: Any, line: int) -> Any:
        if not self._traced_file(code.co_filename):
            return sys.monitoring.DISABLE  # this location never reports again (all threads)
        if self.active and threading.get_ident() in self.idents:
            self.yield_point((code, line))
        return None

    def _mon_start(self, code: Any, offset: int) -> Any:
        if code.co_name not in self.buggify_calls or self._traced_file(code.co_filename):
            return sys.monitoring.DISABLE
        if self.active and threading.get_ident() in self.idents:
            self.yield_point(("call", code.co_name))
        return None

    def _mon_install(self) -> None:
        m = sys.monitoring
        self._tool = m.DEBUGGER_ID
        m.use_tool_id(self._tool, "lsprotocol-verif-sim")
        m.register_callback(self._tool, m.events.LINE, self._mon_line)
        ev = m.events.LINE
        if self.buggify_calls:
            m.register_callback(self._tool, m.events.PY_START, self._mon_start)
            ev |= m.events.PY_START
        m.set_events(self._tool, ev)

    def _mon_remove(self) -> None:
        m = sys.monitoring
        m.set_events(self._tool, 0)
        m.register_callback(self._tool, m.events.LINE, None)
        m.register_callback(self._tool, m.events.PY_START, None)
        m.free_tool_id(self._tool)

    # -- core ----------------------------------------------------------------------------
    def _eligible(self) -> List[int]:
        el = self._el_cache
        if el is not None and self.steps < self._el_valid_until:
            return el
        el = self._compute_eligible()
        self._el_cache = el
        pend = [self.start_after[t] for t in range(self.n) if self.state[t] == RUNNABLE and self.start_after[t] > self.steps]
        self._el_valid_until = min(pend) if pend else float("inf")
        return el

    def _invalidate(self) -> None:
        self._el_cache = None

    def _compute_eligible(self) -> List[int]:
        el = [
            t
            for t in range(self.n)
            if self.state[t] == RUNNABLE and self.start_after[t] <= self.steps
        ]
        if not el:
            waiting = [t for t in range(self.n) if self.state[t] == RUNNABLE]
            if waiting:
                # discrete-event jump: nothing eligible now, advance the step clock
                self.steps = min(self.start_after[t] for t in waiting)
                el = [t for t in waiting if self.start_after[t] <= self.steps]
        return el

    def _record(self, t: int) -> None:
        d = self.decisions
        if d and d[-1][0] == t:
            d[-1][1] += 1
        else:
            d.append([t, 1])

    # -- injected interrupts (what a signal handler, the allocator or the stack limit can raise at an
    # arbitrary line): armed by the workload for the running thread, delivered at its k-th next
    # pre-emption point
    def arm(self, t: int, k: int, exc: type) -> bool:
        if not self.use_monitoring:
            return False  # an exception out of a settrace function would switch tracing off
        self._arm[t] = [max(1, int(k)), exc]
        return True

    def disarm(self, t: int) -> bool:
        a = self._arm.pop(t, None)
        return a is not None and a[0] is None

    def yield_point(self, site: Tuple) -> None:
        if not self.active:
            return
        if self.abort is not None:
            raise SimAbort()
        me = self.current
        if me is None or self._ident[me] != threading.get_ident():
            return  # not the baton holder (e.g. a non-simulated thread): no scheduling decision
        steps = self.steps = self.steps + 1
        self.pos[me] = site
        if steps > self.step_cap:
            self._abort(StepCap(f"step cap {self.step_cap} reached"))
            raise SimAbort()
        if self._arm:
            a = self._arm.get(me)
            if a is not None and a[0] is not None:
                a[0] -= 1
                prev, a[2:] = (a[2] if len(a) > 2 else None), [site]
                if a[0] <= 0:
                    if _no_interrupt_here(site, prev):
                        a[0] = 1  # postponed to the next pre-emption point
                    else:
                        a[0] = None  # fired: the exception is delivered at this pre-emption point
                        self.injected += 1
                        raise a[1]("injected by the simulator")
        el = self._el_cache
        if el is None or steps >= self._el_valid_until:
            el = self._eligible()
        nxt = self.policy.choose(steps, me, el)
        # fairness bound: no thread runs more than `fair_run` consecutive steps while others are
        # runnable (real schedulers pre-empt; without this a spin-wait would look like a livelock)
        if self._benched:
            # a thread that exhausted its time slice sits out for one quantum (if anybody else can run)
            self._benched = {t: u for t, u in self._benched.items() if u > steps}
            if nxt in self._benched:
                free = [t for t in el if t not in self._benched]
                if free:
                    nxt = me if me in free else free[steps % len(free)]
        if nxt == me:
            self._run_len += 1
            if self._run_len > self.fair_run and len(el) > 1:
                others = [t for t in el if t != me and t not in self._benched] or [t for t in el if t != me]
                nxt = others[(steps // self.fair_run) % len(others)]
                self._benched[me] = steps + self.fair_quantum
                self._run_len = 0
                self.forced_switches += 1
        else:
            self._run_len = 0
        d = self.decisions
        if d and d[-1][0] == nxt:
            d[-1][1] += 1
        else:
            d.append([nxt, 1])
        if nxt != me:
            self._switch(me, nxt, site)

    def _switch(self, me: int, nxt: int, site: Tuple) -> None:
        self.switches += 1
        site = self.site_name(site)
        self.switch_hash.update(f"{me}>{nxt}@{site}|".encode())
        key = f"{site[0]}:{site[1]}"
        self.switch_sites[key] = self.switch_sites.get(key, 0) + 1
        if self.probe_cb is not None:
            self.probe_cb(me, nxt, site)
        self.current = nxt
        self.sems[nxt].release()
        self.sems[me].acquire()
        if self.abort is not None:
            raise SimAbort()

    def block_current(self, on: Any) -> None:
        me = self.current
        assert me is not None
        self.state[me] = BLOCKED
        self.waiting_on[me] = on
        self._invalidate()
        el = self._eligible()
        if not el:
            self._abort(Deadlock(f"all threads blocked; thread {me} waits at {self.site_name(self.pos[me])}"))
            raise SimAbort()
        nxt = self.policy.choose(self.steps, None, el)
        self._record(nxt)
        self._switch(me, nxt, ("block", 0))

    def wake_waiters(self, on: Any) -> None:
        for t in range(self.n):
            if self.state[t] == BLOCKED and self.waiting_on[t] is on:
                self.state[t] = RUNNABLE
                self.waiting_on[t] = None
                self._invalidate()

    def _abort(self, exc: BaseException) -> None:
        if self.abort is None:
            self.abort = exc
        # release everyone; each raises SimAbort at its wake-up
        for t in range(self.n):
            if t != self.current and self.state[t] in (RUNNABLE, BLOCKED):
                try:
                    self.sems[t].release()
                except RuntimeError:
                    pass

    def _thread_main(self, idx: int, fn: Callable[[int], None]) -> None:
        self.idents[threading.get_ident()] = idx
        self._ident[idx] = threading.get_ident()
        self.sems[idx].acquire()  # wait for the baton
        try:
            if self.abort is None:
                if self.n > 1 and not self.use_monitoring:
                    sys.settrace(self._gtrace)
                try:
                    fn(idx)
                finally:
                    sys.settrace(None)
        except SimAbort:
            pass
        except BaseException as e:  # workload driver bug: harness error
            self.errors[idx] = e
        finally:
            self.state[idx] = DONE
            self._invalidate()
            self._finish(idx)

    def _finish(self, idx: int) -> None:
        if self.abort is not None:
            if all(s == DONE for s in self.state):
                self.main_sem.release()
            return
        el = self._eligible()
        if el:
            nxt = self.policy.choose(self.steps, None, el)
            self._record(nxt)
            self.switches += 1
            self.switch_hash.update(f"{idx}>{nxt}@end|".encode())
            self.current = nxt
            self.sems[nxt].release()
            return
        if all(s == DONE for s in self.state):
            self.current = None
            self.main_sem.release()
            return
        # somebody is blocked and nobody can run
        self.current = None
        self._abort(Deadlock("threads remain blocked after the last runnable thread finished"))
        # _abort released them; the last one to finish releases main
        if all(s == DONE for s in self.state):
            self.main_sem.release()

    def run(self, fns: Sequence[Callable[[int], None]], wall_timeout: float = 120.0) -> None:
        assert len(fns) == self.n
        for i, fn in enumerate(fns):
            th = threading.Thread(target=self._thread_main, args=(i, fn), name=f"sim-{i}", daemon=True)
            self.threads.append(th)
        for th in self.threads:
            th.start()
        while len(self.idents) < self.n:  # every thread registered its ident before events flow
            threading.Event().wait(0.0005)
        if self.use_monitoring:
            self._mon_install()
        for i in range(self.n):
            self.state[i] = RUNNABLE
        self._invalidate()
        self.active = True
        el = self._eligible()
        first = self.policy.choose(self.steps, None, el)
        self._record(first)
        self.current = first
        self.sems[first].release()
        try:
            if not self.main_sem.acquire(timeout=wall_timeout):
                self.active = False
                raise TimeoutError("simulated threads did not finish (wall clock)")
        finally:
            self.active = False
            if self.use_monitoring:
                self._mon_remove()
        for th in self.threads:
            th.join(timeout=5.0)

    def digest(self) -> str:
        return self.switch_hash.hexdigest()[:20]

"""Metamodel documents for the genworld engine: closed sub-models, evolution edits (schema-valid),
splits, storage faults and single-edit schema violations.

All functions are pure and take an explicit random.Random; documents are plain JSON values.
"""
from __future__ import annotations

import copy
import json
import random
from typing import Any, Callable, Dict, Iterable, Iterator, List, Optional, Set, Tuple

SECTIONS = ["requests", "notifications", "structures", "enumerations", "typeAliases"]
ALWAYS = ["LSPAny", "LSPObject", "LSPArray"]


# --------------------------------------------------------------------------------------------
# walking type expressions
# --------------------------------------------------------------------------------------------

def type_refs(t: Any, out: Set[str]) -> None:
    if isinstance(t, list):
        for x in t:
            type_refs(x, out)
        return
    if not isinstance(t, dict):
        return
    k = t.get("kind")
    if k == "reference":
        out.add(t["name"])
    elif k == "array":
        type_refs(t.get("element"), out)
    elif k in ("or", "and", "tuple"):
        for x in t.get("items", []):
            type_refs(x, out)
    elif k == "map":
        type_refs(t.get("key"), out)
        type_refs(t.get("value"), out)
    elif k == "literal":
        for p in t.get("value", {}).get("properties", []):
            type_refs(p.get("type"), out)


def decl_refs(section: str, d: Dict[str, Any]) -> Set[str]:
    out: Set[str] = set()
    if section in ("requests", "notifications"):
        for k in ("params", "result", "partialResult", "errorData", "registrationOptions"):
            if k in d:
                type_refs(d[k], out)
    elif section == "structures":
        for p in d.get("properties", []):
            type_refs(p.get("type"), out)
        type_refs(d.get("extends", []), out)
        type_refs(d.get("mixins", []), out)
    elif section == "typeAliases":
        type_refs(d.get("type"), out)
    return out


def closed_submodel(doc: Dict[str, Any], req_methods: Iterable[str], notif_methods: Iterable[str],
                    extra_names: Iterable[str] = ()) -> Dict[str, Any]:
    """Selected requests/notifications plus the transitive closure of the declarations they
    reference, plus LSPAny/LSPObject/LSPArray; original order kept."""
    rq = [r for r in doc["requests"] if r["method"] in set(req_methods)]
    nt = [n for n in doc["notifications"] if n["method"] in set(notif_methods)]
    by_name: Dict[str, Tuple[str, Dict[str, Any]]] = {}
    for sec in ("structures", "enumerations", "typeAliases"):
        for d in doc[sec]:
            by_name.setdefault(d["name"], (sec, d))
    need: Set[str] = set()
    for r in rq:
        need |= decl_refs("requests", r)
    for n in nt:
        need |= decl_refs("notifications", n)
    need |= {n for n in list(ALWAYS) + list(extra_names) if n in by_name}
    done: Set[str] = set()
    work = sorted(need)
    while work:
        nm = work.pop()
        if nm in done or nm not in by_name:
            continue
        done.add(nm)
        sec, d = by_name[nm]
        for x in sorted(decl_refs(sec, d)):
            if x not in done:
                work.append(x)
    out = {
        "metaData": copy.deepcopy(doc["metaData"]),
        "requests": copy.deepcopy(rq),
        "notifications": copy.deepcopy(nt),
        "structures": [copy.deepcopy(d) for d in doc["structures"] if d["name"] in done],
        "enumerations": [copy.deepcopy(d) for d in doc["enumerations"] if d["name"] in done],
        "typeAliases": [copy.deepcopy(d) for d in doc["typeAliases"] if d["name"] in done],
    }
    return out


def random_submodel(doc: Dict[str, Any], rnd: random.Random, lo: int = 2, hi: int = 8) -> Dict[str, Any]:
    k = rnd.randint(lo, hi)
    kr = rnd.randint(0, k)
    rm = [r["method"] for r in rnd.sample(doc["requests"], min(kr, len(doc["requests"])))]
    nm = [n["method"] for n in rnd.sample(doc["notifications"], min(k - kr, len(doc["notifications"])))]
    return closed_submodel(doc, rm, nm)


# --------------------------------------------------------------------------------------------
# evolution edits that every plugin accepts on the pinned tree (used by C16 for "a different model")
# --------------------------------------------------------------------------------------------

def _fresh(rnd: random.Random, prefix: str) -> str:
    return f"{prefix}{rnd.randrange(10**6):06d}"


def add_structure(doc: Dict[str, Any], rnd: random.Random) -> str:
    name = _fresh(rnd, "SimAdded")
    props = [
        {"name": "alpha", "type": {"kind": "base", "name": "string"}},
        {"name": "beta", "type": {"kind": "base", "name": "uinteger"}, "optional": True, "documentation": "sim added"},
    ]
    if doc["structures"] and rnd.random() < 0.6:
        props.append({"name": "gamma", "type": {"kind": "reference", "name": rnd.choice(doc["structures"])["name"]}, "optional": True})
    if rnd.random() < 0.5:
        props.append({"name": "delta", "type": {"kind": "array", "element": {"kind": "base", "name": "integer"}}})
    doc["structures"].append({"name": name, "properties": props, "documentation": f"Simulated structure {name}."})
    return f"add_structure:{name}"


def add_enumeration(doc: Dict[str, Any], rnd: random.Random) -> str:
    name = _fresh(rnd, "SimEnum")
    if rnd.random() < 0.5:
        e = {"name": name, "type": {"kind": "base", "name": "string"},
             "values": [{"name": "First", "value": "first"}, {"name": "Second", "value": "second", "documentation": "2nd"}]}
    else:
        e = {"name": name, "type": {"kind": "base", "name": "uinteger"},
             "values": [{"name": "One", "value": 1}, {"name": "Two", "value": 2}]}
    if rnd.random() < 0.3:
        e["supportsCustomValues"] = True
    doc["enumerations"].append(e)
    return f"add_enumeration:{name}"


def add_enum_member(doc: Dict[str, Any], rnd: random.Random) -> str:
    if not doc["enumerations"]:
        return add_enumeration(doc, rnd)
    e = rnd.choice(doc["enumerations"])
    nm = _fresh(rnd, "SimMember")
    if e["type"]["name"] == "string":
        e["values"].append({"name": nm, "value": nm.lower()})
    else:
        e["values"].append({"name": nm, "value": 900 + rnd.randrange(90)})
    return f"add_enum_member:{e['name']}.{nm}"


def add_request(doc: Dict[str, Any], rnd: random.Random) -> str:
    tag = _fresh(rnd, "sim")
    tn = "Sim" + tag[3:] + "Request"
    structs = [s["name"] for s in doc["structures"]]
    if not structs:
        add_structure(doc, rnd)
        structs = [s["name"] for s in doc["structures"]]
    r = {
        "method": f"sim/{tag}",
        "typeName": tn,
        "messageDirection": rnd.choice(["clientToServer", "serverToClient", "both"]),
        "params": {"kind": "reference", "name": rnd.choice(structs)},
        "result": {"kind": "or", "items": [{"kind": "reference", "name": rnd.choice(structs)}, {"kind": "base", "name": "null"}]},
        "documentation": f"Simulated request {tag}.",
    }
    doc["requests"].append(r)
    return f"add_request:{r['method']}"


def add_notification(doc: Dict[str, Any], rnd: random.Random) -> str:
    tag = _fresh(rnd, "sim")
    tn = "Sim" + tag[3:] + "Notification"
    structs = [s["name"] for s in doc["structures"]]
    if not structs:
        add_structure(doc, rnd)
        structs = [s["name"] for s in doc["structures"]]
    n = {
        "method": f"sim/{tag}",
        "typeName": tn,
        "messageDirection": rnd.choice(["clientToServer", "serverToClient", "both"]),
        "params": {"kind": "reference", "name": rnd.choice(structs)},
    }
    doc["notifications"].append(n)
    return f"add_notification:{n['method']}"


def drop_message(doc: Dict[str, Any], rnd: random.Random) -> str:
    sec = rnd.choice(["requests", "notifications"])
    if len(doc[sec]) <= 1:
        return "drop_message:none"
    i = rnd.randrange(len(doc[sec]))
    m = doc[sec].pop(i)
    return f"drop_message:{m['method']}"


def add_property(doc: Dict[str, Any], rnd: random.Random) -> str:
    cands = [s for s in doc["structures"] if s["name"].startswith("SimAdded")]
    if not cands:
        return add_structure(doc, rnd)
    s = rnd.choice(cands)
    nm = _fresh(rnd, "extra")
    s["properties"].append({"name": nm, "type": {"kind": "base", "name": "boolean"}, "optional": True})
    return f"add_property:{s['name']}.{nm}"


# ---- richer additions: every construct below was measured to be accepted by all four plugins on the
# pinned tree (see DESIGN section 4); each history's clean-room reference run re-checks acceptance, so
# an edit a plugin cannot digest makes the history "skipped", never an alarm.

NAME_POOL = ["from", "class", "import", "global", "in", "is", "type", "match", "async", "ref", "event", "namespace", "params", "object",
             "self", "None", "fn", "struct", "string", "default", "base", "lambda", "yield", "crate", "enum", "const",
             "alpha", "beta", "gamma", "kind", "uri", "range", "textDocument", "workDoneToken", "data", "value", "label", "id",
             "position", "location", "locationLink", "rangeLength", "text", "name", "method", "params", "result", "items", "jsonrpc"]


def _b(n: str) -> Dict[str, Any]:
    return {"kind": "base", "name": n}


def _r(n: str) -> Dict[str, Any]:
    return {"kind": "reference", "name": n}


def rich_type(doc: Dict[str, Any], rnd: random.Random, depth: int = 0) -> Dict[str, Any]:
    structs = [s["name"] for s in doc["structures"]]
    enums = [e["name"] for e in doc["enumerations"]]
    k = rnd.choice(["base", "base", "ref", "ref", "enum", "or", "or_null", "array", "map", "tuple", "literal", "strlit"] if depth < 2 else ["base", "ref"])
    if k == "base" or (k == "ref" and not structs) or (k == "enum" and not enums):
        return _b(rnd.choice(["string", "integer", "uinteger", "boolean", "decimal", "DocumentUri", "URI"]))
    if k == "ref":
        return _r(rnd.choice(structs))
    if k == "enum":
        return _r(rnd.choice(enums))
    if k == "or":
        if rnd.random() < 0.5:
            return {"kind": "or", "items": [_b("string"), _b(rnd.choice(["integer", "boolean"]))]}
        # three or more alternatives, some of which target languages map to the same type
        # (DocumentUri / URI / string; integer / uinteger)
        items = [_b(n) for n in rnd.sample(["string", "DocumentUri", "URI", "integer", "uinteger", "boolean", "decimal"], rnd.randint(2, 4))]
        if structs and rnd.random() < 0.7:
            items.insert(rnd.randint(0, len(items)), _r(rnd.choice(structs)))
        return {"kind": "or", "items": items}
    if k == "or_null":
        return {"kind": "or", "items": [_r(rnd.choice(structs)) if structs else _b("string"), _b("null")]}
    if k == "array":
        return {"kind": "array", "element": rich_type(doc, rnd, 2)}
    if k == "map":
        return {"kind": "map", "key": _b(rnd.choice(["string", "DocumentUri"])), "value": rich_type(doc, rnd, 2)}
    if k == "tuple":
        return {"kind": "tuple", "items": [_b("uinteger"), _b("uinteger")]}
    if k == "literal":
        return {"kind": "literal", "value": {"properties": [{"name": "a", "type": _b("string")}, {"name": "b", "type": _b("boolean"), "optional": True}]}}
    return {"kind": "stringLiteral", "value": rnd.choice(["simkind", "create", "x"])}


def add_rich_structure(doc: Dict[str, Any], rnd: random.Random) -> str:
    name = _fresh(rnd, "SimRich")
    names = rnd.sample(NAME_POOL, rnd.randint(1, 5))
    props = []
    for n in names:
        p: Dict[str, Any] = {"name": n, "type": rich_type(doc, rnd)}
        if rnd.random() < 0.5:
            p["optional"] = True
        if rnd.random() < 0.3:
            p["documentation"] = f"Property {n}.\n\n@since 3.18.0"
        if rnd.random() < 0.15:
            p["deprecated"] = "use something else"
        if rnd.random() < 0.15:
            p["proposed"] = True
        if rnd.random() < 0.2:
            p["since"] = "3.18.0"
        props.append(p)
    s: Dict[str, Any] = {"name": name, "properties": props}
    rich = [x["name"] for x in doc["structures"] if x["name"].startswith(("SimRich", "SimAdded"))]
    if rich and rnd.random() < 0.4:
        s["extends"] = [_r(rnd.choice(rich))]
    if rich and rnd.random() < 0.25:
        s["mixins"] = [_r(rnd.choice(rich))]
    if rnd.random() < 0.3:
        s["documentation"] = f"Rich simulated structure {name}."
    if rnd.random() < 0.1:
        s["proposed"] = True
    doc["structures"].append(s)
    return f"add_rich_structure:{name}({','.join(names)})"


def add_alias(doc: Dict[str, Any], rnd: random.Random) -> str:
    name = _fresh(rnd, "SimAlias")
    t = rnd.choice([{"kind": "or", "items": [_b("string"), _b("integer")]}, {"kind": "array", "element": _b("string")},
                    _r(rnd.choice(doc["structures"])["name"]) if doc["structures"] else _b("string"), _b("string"),
                    # kinds some plugins emit nothing for (all four accept them on the pinned tree)
                    {"kind": "map", "key": _b("string"), "value": _b("integer")},
                    {"kind": "map", "key": _b("DocumentUri"), "value": {"kind": "array", "element": _r(rnd.choice(doc["structures"])["name"]) if doc["structures"] else _b("string")}},
                    {"kind": "tuple", "items": [_b("integer"), _b("string")]},
                    {"kind": "stringLiteral", "value": rnd.choice(["abc", "create", "x-y"])}])
    doc["typeAliases"].append({"name": name, "type": t})
    return f"add_alias:{name}"


def add_rich_request(doc: Dict[str, Any], rnd: random.Random) -> str:
    tag = _fresh(rnd, "sim")
    structs = [s["name"] for s in doc["structures"]]
    if not structs:
        add_structure(doc, rnd)
        structs = [s["name"] for s in doc["structures"]]
    q: Dict[str, Any] = {"method": f"sim/{tag}", "typeName": "Sim" + tag[3:] + "Request", "messageDirection": rnd.choice(["clientToServer", "serverToClient", "both"]),
                         "result": rnd.choice([_b("null"), {"kind": "array", "element": _b("string")}, {"kind": "or", "items": [_r(rnd.choice(structs)), _b("null")]}])}
    if rnd.random() < 0.8:
        q["params"] = _r(rnd.choice(structs))
    if rnd.random() < 0.3:
        q["registrationOptions"] = _r(rnd.choice(structs))
        q["registrationMethod"] = f"sim/{tag}/register"
    if rnd.random() < 0.3:
        q["partialResult"] = {"kind": "array", "element": _b("string")}
    if rnd.random() < 0.2:
        q["errorData"] = _b("string")
    doc["requests"].append(q)
    return f"add_rich_request:{q['method']}"


def add_bare_notification(doc: Dict[str, Any], rnd: random.Random) -> str:
    tag = _fresh(rnd, "sim")
    doc["notifications"].append({"method": f"sim/{tag}", "typeName": "Sim" + tag[3:] + "Notification", "messageDirection": "both"})
    return f"add_bare_notification:sim/{tag}"


def add_enum_and_user(doc: Dict[str, Any], rnd: random.Random) -> str:
    en = _fresh(rnd, "SimEnumR")
    doc["enumerations"].append({"name": en, "type": _b(rnd.choice(["uinteger", "integer"])), "values": [{"name": "Neg" if i == 0 else f"V{i}", "value": i * 3 - (5 if i == 0 else 0)} for i in range(rnd.randint(1, 4))]}
                               if rnd.random() < 0.5 else
                               {"name": en, "type": _b("string"), "supportsCustomValues": rnd.random() < 0.5, "values": [{"name": f"V{i}", "value": f"v{i}"} for i in range(rnd.randint(1, 4))]})
    if doc["enumerations"][-1]["type"]["name"] == "uinteger":
        for v in doc["enumerations"][-1]["values"]:
            v["value"] = abs(v["value"])
    sn = _fresh(rnd, "SimUsesEnum")
    doc["structures"].append({"name": sn, "properties": [{"name": "e", "type": _r(en)}, {"name": "es", "type": {"kind": "array", "element": _r(en)}, "optional": True}]})
    return f"add_enum_and_user:{en}"


def add_inheritance_conflict(doc: Dict[str, Any], rnd: random.Random) -> str:
    """Two parents declare the same property name differently and the child does not redeclare it:
    which declaration wins must be decided by the model alone."""
    tag = _fresh(rnd, "")
    names = rnd.sample(NAME_POOL, rnd.randint(1, 3))
    left = {"name": f"SimLeft{tag}", "properties": [{"name": n, "type": _b("string"), "documentation": f"Left {n}."} for n in names]}
    right = {"name": f"SimRight{tag}", "properties": [{"name": n, "type": _b(rnd.choice(["uinteger", "boolean", "string"])), "optional": True, "documentation": f"Right {n}."} for n in names]}
    how = rnd.choice(["ee", "em", "mm", "me"])
    child: Dict[str, Any] = {"name": f"SimDerived{tag}", "properties": [{"name": "own" + tag, "type": _b("boolean")}]}
    l, r_ = _r(left["name"]), _r(right["name"])
    if how == "ee":
        child["extends"] = [l, r_]
    elif how == "mm":
        child["mixins"] = [l, r_]
    elif how == "em":
        child["extends"], child["mixins"] = [l], [r_]
    else:
        child["extends"], child["mixins"] = [r_], [l]
    order = [left, right, child]
    if rnd.random() < 0.5:
        order = [child, right, left]  # declaration order in the file must not matter either
    doc["structures"].extend(order)
    return f"add_inheritance_conflict:{how}:{','.join(names)}"


def add_twin_literals(doc: Dict[str, Any], rnd: random.Random) -> str:
    """Two structures whose equally named property holds an anonymous literal of the same shape
    (generated nested-type names may collide)."""
    tag = _fresh(rnd, "")
    pn = rnd.choice(NAME_POOL)
    def lit(k: int) -> Dict[str, Any]:
        # k required properties with names from the pool (generated nested-type names are derived from
        # property names; several required parts give a name-disambiguation step something to order)
        names = rnd.sample(NAME_POOL, k)
        props = [{"name": n, "type": _b(rnd.choice(["string", "uinteger", "boolean"]))} for n in names]
        if rnd.random() < 0.5:
            props.append({"name": "opt" + tag, "type": _b("boolean"), "optional": True})
        return {"kind": "literal", "value": {"properties": props}}

    same = lit(rnd.randint(1, 4))
    n_twins = rnd.randint(2, 4)
    for i in range(n_twins):
        t = copy.deepcopy(same) if rnd.random() < 0.4 else lit(rnd.randint(1, 4))
        p: Dict[str, Any] = {"name": pn, "type": t}
        if rnd.random() < 0.4:
            p["optional"] = True
        extra = [{"name": "other" + tag, "type": lit(rnd.randint(2, 3))}] if rnd.random() < 0.4 else []
        doc["structures"].append({"name": f"SimTwin{'ABCD'[i]}{tag}", "properties": [p] + extra})
    return f"add_twin_literals:{pn}x{n_twins}"


def add_twin_enums(doc: Dict[str, Any], rnd: random.Random) -> str:
    tag = _fresh(rnd, "")
    vals = [{"name": "Alpha", "value": "alpha"}, {"name": "Beta", "value": "beta"}]
    doc["enumerations"].append({"name": f"SimTwinEnumA{tag}", "type": _b("string"), "values": copy.deepcopy(vals)})
    doc["enumerations"].append({"name": f"SimTwinEnumB{tag}", "type": _b("string"), "values": copy.deepcopy(vals), "supportsCustomValues": True})
    return "add_twin_enums"


def add_long_named_request(doc: Dict[str, Any], rnd: random.Random) -> str:
    """Very long (but legal) type and method names: generated file names / identifiers get long."""
    tag = _fresh(rnd, "")
    n = rnd.choice([90, 120, 139, 150])
    tn = ("SimVeryLongRequestNameForPathLengthHandling" * 5)[: n - len(tag)] + tag
    structs = [s["name"] for s in doc["structures"]]
    if not structs:
        add_structure(doc, rnd)
        structs = [s["name"] for s in doc["structures"]]
    doc["requests"].append({"method": "sim/" + tn[:60] + "/" + tag, "typeName": tn + "Request", "messageDirection": "clientToServer",
                            "params": _r(rnd.choice(structs)), "result": _b("null")})
    return f"add_long_named_request:{n}"


def add_case_collisions(doc: Dict[str, Any], rnd: random.Random) -> str:
    """Names that differ in the model but collide after a target language's case conversion
    (fooBar / foo_bar / FooBar / $/fooBar): ties must be broken by the model, not by the process."""
    tag = _fresh(rnd, "")
    stem = rnd.choice(["fooBar", "didOpen", "workDone", "valueSet"]) + tag
    snake = "".join("_" + c.lower() if c.isupper() else c for c in stem)
    structs = [s["name"] for s in doc["structures"]]
    if not structs:
        add_structure(doc, rnd)
        structs = [s["name"] for s in doc["structures"]]
    st = rnd.choice(structs)
    how = rnd.choice(["methods", "methods", "enum", "props"])
    if how == "methods":
        spellings = [f"sim/{stem}", f"sim/{snake}", f"$/sim/{stem}", f"sim/{stem[0].upper() + stem[1:]}"]
        rnd.shuffle(spellings)
        for i, m in enumerate(spellings[: rnd.randint(2, 4)]):
            if rnd.random() < 0.5:
                doc["notifications"].append({"method": m, "typeName": f"SimCollide{tag}N{i}Notification", "messageDirection": "both", "params": _r(st)})
            else:
                doc["requests"].append({"method": m, "typeName": f"SimCollide{tag}R{i}Request", "messageDirection": "both", "params": _r(st), "result": _b("null")})
    elif how == "enum":
        doc["enumerations"].append({"name": f"SimCollide{tag}", "type": _b("string"),
                                    "values": [{"name": stem, "value": "a"}, {"name": stem[0].upper() + stem[1:], "value": "b"}, {"name": snake, "value": "c"}]})
    else:
        doc["structures"].append({"name": f"SimCollideProps{tag}", "properties": [{"name": stem, "type": _b("string")}, {"name": snake, "type": _b("string"), "optional": True}]})
    return f"add_case_collisions:{how}"


SAFE_EDITS: List[Callable[[Dict[str, Any], random.Random], str]] = [
    add_structure, add_enumeration, add_enum_member, add_request, add_notification, drop_message, add_property,
    add_rich_structure, add_rich_structure, add_rich_structure, add_alias, add_rich_request, add_bare_notification, add_enum_and_user,
    add_inheritance_conflict, add_inheritance_conflict, add_twin_literals, add_twin_enums, add_long_named_request,
    add_case_collisions, add_case_collisions,
]


ODD_DOCS = [
    'Quotes "double" and \'single\' and `backticks`.',
    "Back\\slash \\n literal and a real\nnewline\n\n    indented code block",
    "C-style */ terminator and /* opener, XML <tag attr='1'> &amp; entity",
    'Triple """ quotes and \'\'\' too',
    "Unicode: é ü 漢字 𐐀 \u2028line-sep \u2029para-sep \u00a0nbsp \ttab",
    "@since 9.9.9\n@proposed\n@deprecated use something else",
    "trailing whitespace   \n   leading whitespace",
    "x" * 300,
    "",
]


def modify_existing(doc: Dict[str, Any], rnd: random.Random) -> str:
    """Change something that is already there (the other edits only add): documentation with awkward
    characters, annotations on existing nodes, optionality, enum values."""
    kind = rnd.choice(["struct_doc", "prop_doc", "prop_optional", "prop_annot", "enum_value_doc", "enum_annot", "message_annot", "alias_annot"])
    if kind in ("struct_doc", "prop_doc", "prop_optional", "prop_annot") and doc["structures"]:
        s_ = rnd.choice(doc["structures"])
        if kind == "struct_doc":
            s_["documentation"] = rnd.choice(ODD_DOCS)
        elif s_["properties"]:
            p_ = rnd.choice(s_["properties"])
            if kind == "prop_doc":
                p_["documentation"] = rnd.choice(ODD_DOCS)
            elif kind == "prop_optional":
                p_["optional"] = not p_.get("optional", False)
            else:
                p_[rnd.choice(["deprecated", "since"])] = rnd.choice(["3.18.0", "Use `other` instead.", ""])
                if rnd.random() < 0.5:
                    p_["proposed"] = True
        return f"modify:{kind}:{s_['name']}"
    if kind in ("enum_value_doc", "enum_annot") and doc["enumerations"]:
        e_ = rnd.choice(doc["enumerations"])
        if kind == "enum_annot":
            e_[rnd.choice(["deprecated", "since", "documentation"])] = rnd.choice(ODD_DOCS[:6])
            if rnd.random() < 0.4:
                e_["proposed"] = True
        elif e_["values"]:
            v_ = rnd.choice(e_["values"])
            v_["documentation"] = rnd.choice(ODD_DOCS)
            if rnd.random() < 0.4:
                v_["proposed"] = True
            if rnd.random() < 0.3:
                v_["deprecated"] = "old value"
        return f"modify:{kind}:{e_['name']}"
    if kind == "message_annot":
        sec = rnd.choice(["requests", "notifications"])
        if doc[sec]:
            m_ = rnd.choice(doc[sec])
            m_[rnd.choice(["documentation", "deprecated", "since"])] = rnd.choice(ODD_DOCS[:7])
            if rnd.random() < 0.4:
                m_["proposed"] = True
            return f"modify:{kind}:{m_['method']}"
    if doc["typeAliases"]:
        a_ = rnd.choice(doc["typeAliases"])
        a_[rnd.choice(["documentation", "deprecated", "since"])] = rnd.choice(ODD_DOCS[:7])
        return f"modify:alias_annot:{a_['name']}"
    return "modify:none"


def add_many_of_the_same(doc: Dict[str, Any], rnd: random.Random) -> str:
    """Scale: more than a hundred declarations that compete for the same generated name / numbering
    (fallback paths after 'name2'..'name99' run out), or one declaration with hundreds of members."""
    tag = _fresh(rnd, "")
    kind = rnd.choice(["twin_literals", "twin_literals", "enum_members", "properties"])
    if kind == "twin_literals":
        pn = rnd.choice(NAME_POOL)
        req = rnd.sample(NAME_POOL, rnd.randint(1, 2))
        for i in range(rnd.choice([104, 130])):
            doc["structures"].append({"name": f"SimMany{tag}N{i:03d}", "properties": [{"name": pn, "type": {"kind": "literal", "value": {"properties": [{"name": n, "type": _b("string")} for n in req]}}}]})
    elif kind == "enum_members":
        doc["enumerations"].append({"name": f"SimManyEnum{tag}", "type": _b("uinteger"), "values": [{"name": f"Member{i}", "value": i} for i in range(rnd.choice([300, 1200]))]})
    else:
        doc["structures"].append({"name": f"SimManyProps{tag}", "properties": [{"name": f"prop{i}", "type": _b("string"), **({"optional": True} if i % 3 else {})} for i in range(rnd.choice([150, 400]))]})
    return f"add_many_of_the_same:{kind}"


SAFE_EDITS += [modify_existing, modify_existing, modify_existing, add_many_of_the_same]


def _and_parts(doc: Dict[str, Any], rnd: random.Random, tag: str) -> List[Dict[str, Any]]:
    """2-3 structures to be joined by an `and` type; they SHARE some property names (declared differently),
    so whoever flattens them has to decide an order and a winner."""
    shared = rnd.sample(NAME_POOL, rnd.randint(2, 4))
    parts = []
    for i in range(rnd.randint(2, 3)):
        nm = f"SimAndPart{i}x{tag}"
        props = [{"name": n, "type": _b(rnd.choice(["string", "uinteger", "boolean"])), **({"optional": True} if rnd.random() < 0.5 else {})} for n in shared if rnd.random() < 0.85]
        props += [{"name": f"only{i}{tag}", "type": _b("string")}]
        rnd.shuffle(props)
        doc["structures"].append({"name": nm, "properties": props})
        parts.append(_r(nm))
    return parts


def add_and_registration_options(doc: Dict[str, Any], rnd: random.Random) -> str:
    """Intersection type as registrationOptions of a request (accepted by all four plugins)."""
    tag = _fresh(rnd, "")
    parts = _and_parts(doc, rnd, tag)
    structs = [s["name"] for s in doc["structures"]]
    doc["requests"].append({"method": f"sim/andreg{tag}", "typeName": f"SimAndReg{tag}Request", "messageDirection": "both", "params": _r(rnd.choice(structs)),
                            "result": _b("null"), "registrationOptions": {"kind": "and", "items": parts}, "registrationMethod": f"sim/andreg{tag}/register"})
    return "add_and_registration_options"


def add_and_notification_params(doc: Dict[str, Any], rnd: random.Random) -> str:
    """Intersection type as params of a notification (python and testdata accept it)."""
    tag = _fresh(rnd, "")
    doc["notifications"].append({"method": f"sim/andn{tag}", "typeName": f"SimAndN{tag}Notification", "messageDirection": "both", "params": {"kind": "and", "items": _and_parts(doc, rnd, tag)}})
    return "add_and_notification_params"


def add_and_message(doc: Dict[str, Any], rnd: random.Random) -> str:
    """Intersection types in message positions.  Only the testdata plugin accepts `and` types on the
    pinned tree (python/rust/dotnet raise), so this edit is offered to testdata histories only."""
    tag = _fresh(rnd, "")
    parts = []
    for i in range(rnd.randint(2, 3)):
        nm = f"SimAndPart{i}x{tag}"
        doc["structures"].append({"name": nm, "properties": [{"name": n, "type": _b(rnd.choice(["string", "uinteger", "boolean"]))} for n in rnd.sample(NAME_POOL, rnd.randint(1, 3))]})
        parts.append(_r(nm))
    t = {"kind": "and", "items": parts}
    if rnd.random() < 0.5:
        doc["requests"].append({"method": f"sim/and{tag}", "typeName": f"SimAnd{tag}Request", "messageDirection": "both", "params": t, "result": rnd.choice([_b("null"), t])})
    else:
        doc["notifications"].append({"method": f"sim/and{tag}", "typeName": f"SimAnd{tag}Notification", "messageDirection": "both", "params": t})
    return "add_and_message"


def add_regexp_union(doc: Dict[str, Any], rnd: random.Random) -> str:
    """Unions over the RegExp base type (the python plugin has no mapping for it; the others do)."""
    tag = _fresh(rnd, "")
    structs = [s["name"] for s in doc["structures"]] or ["LSPAny"]
    items = [_b("string"), _b("RegExp")] + ([_r(rnd.choice(structs))] if rnd.random() < 0.8 else []) + ([_b("DocumentUri"), _b("URI")] if rnd.random() < 0.4 else [])
    rnd.shuffle(items)
    doc["structures"].append({"name": f"SimRegExp{tag}", "properties": [{"name": "pattern", "type": {"kind": "or", "items": items}}, {"name": "plain", "type": _b("RegExp"), "optional": True}]})
    return "add_regexp_union"


def add_literal_in_positions(doc: Dict[str, Any], rnd: random.Random) -> str:
    """Anonymous literals where generated names must be derived from their own property names: inside an
    `or` alias, as array element, as property — with 1-3 properties drawn from the pool (which includes
    the 'positional' names range / position / location / text that name-derivation code treats specially)."""
    tag = _fresh(rnd, "")

    def lit() -> Dict[str, Any]:
        names = rnd.sample(["position", "location", "range", "text", "rangeLength", "locationLink"] + NAME_POOL[:12], rnd.randint(1, 3))
        if rnd.random() < 0.5:
            names = rnd.sample(["position", "location", "range", "text", "rangeLength", "locationLink"], rnd.randint(1, 3))
        return {"kind": "literal", "value": {"properties": [{"name": n, "type": _b(rnd.choice(["string", "uinteger", "boolean"]))} for n in names]}}

    how = rnd.choice(["alias_or", "array_prop", "prop", "alias_or"])
    if how == "alias_or":
        doc["typeAliases"].append({"name": f"SimLitAlias{tag}", "type": {"kind": "or", "items": [lit(), _b("string")] + ([lit()] if rnd.random() < 0.4 else [])}})
    elif how == "array_prop":
        doc["structures"].append({"name": f"SimLitArr{tag}", "properties": [{"name": rnd.choice(NAME_POOL), "type": {"kind": "array", "element": lit()}}]})
    else:
        doc["structures"].append({"name": f"SimLitProp{tag}", "properties": [{"name": rnd.choice(NAME_POOL), "type": lit()}, {"name": "second" + tag, "type": lit(), "optional": True}]})
    return f"add_literal_in_positions:{how}"


SAFE_EDITS += [add_and_registration_options, add_and_registration_options, add_literal_in_positions, add_literal_in_positions]

def add_literal_alias(doc: Dict[str, Any], rnd: random.Random) -> str:
    """A type alias that IS an anonymous literal (rust, dotnet and testdata accept it)."""
    tag = _fresh(rnd, "")
    x = rnd.random()
    if x < 0.45:
        # names that tie under the usual "pick the longest / shortest / first" rules (equal length)
        by_len: Dict[int, List[str]] = {}
        for n in ["position", "location", "range", "text", "rangeLength", "locationLink"] + NAME_POOL:
            if n not in by_len.setdefault(len(n), []):
                by_len[len(n)].append(n)
        group = rnd.choice([g for g in by_len.values() if len(g) >= 2] + [["position", "location"]] * 3)
        names = rnd.sample(group, 2)
    elif x < 0.75:
        names = rnd.sample(["position", "location", "range", "text", "rangeLength", "locationLink"], rnd.randint(1, 3))
    else:
        names = rnd.sample(NAME_POOL, rnd.randint(1, 3))
    doc["typeAliases"].append({"name": f"SimAnchor{tag}", "type": {"kind": "literal", "value": {"properties": [{"name": n, "type": _b(rnd.choice(["string", "uinteger"]))} for n in names]}}})
    return "add_literal_alias"


PLUGIN_EDITS: Dict[str, List[Callable[[Dict[str, Any], random.Random], str]]] = {
    "python": [add_and_notification_params, add_and_notification_params],
    "testdata": [add_and_message, add_and_message, add_and_message, add_regexp_union, add_and_notification_params, add_literal_alias],
    "dotnet": [add_regexp_union, add_regexp_union, add_literal_alias, add_literal_alias],
    "rust": [add_regexp_union, add_regexp_union, add_literal_alias],
}


def evolve(doc: Dict[str, Any], rnd: random.Random, n_edits: int, plugin: Optional[str] = None) -> Tuple[Dict[str, Any], List[str]]:
    d = copy.deepcopy(doc)
    log = []
    pool = SAFE_EDITS + PLUGIN_EDITS.get(plugin or "", [])
    for _ in range(n_edits):
        log.append(rnd.choice(pool)(d, rnd))
    return d, log


def permuted(doc: Dict[str, Any], rnd: random.Random) -> Dict[str, Any]:
    """The same declarations in another order (a different model with the same name sets)."""
    d = copy.deepcopy(doc)
    for sec in SECTIONS:
        rnd.shuffle(d[sec])
    return d


def split(doc: Dict[str, Any], rnd: random.Random, k: int = 2) -> List[Dict[str, Any]]:
    """Cut a document into k schema-valid files whose in-order merge is the document.
    The schema requires every section and metaData in each file."""
    parts: List[Dict[str, Any]] = [
        {"metaData": copy.deepcopy(doc["metaData"]), **{s: [] for s in SECTIONS}} for _ in range(k)
    ]
    for sec in SECTIONS:
        items = doc[sec]
        cuts = sorted(rnd.randint(0, len(items)) for _ in range(k - 1))
        bounds = [0] + cuts + [len(items)]
        for i in range(k):
            parts[i][sec] = copy.deepcopy(items[bounds[i] : bounds[i + 1]])
    return parts


def merge_reference(parts: List[Dict[str, Any]]) -> Dict[str, Any]:
    """What 'the first model extended in order by the others' declarations' means."""
    out = copy.deepcopy(parts[0])
    for p in parts[1:]:
        for sec in SECTIONS:
            out[sec] = out[sec] + copy.deepcopy(p[sec])
    return out


def dumps(doc: Any, rnd: Optional[random.Random] = None) -> bytes:
    """Serialise a document the way the repo stores it (indent=4) or, seeded, compactly."""
    try:
        if rnd is not None and rnd.random() < 0.5:
            return json.dumps(doc, ensure_ascii=False, separators=(",", ":")).encode("utf-8")
        return (json.dumps(doc, indent=4, ensure_ascii=False) + "\n").encode("utf-8")
    except UnicodeEncodeError:  # lone surrogates can only travel as \uXXXX escapes
        return (json.dumps(doc, indent=4, ensure_ascii=True) + "\n").encode("ascii")

"""Common machinery: seed discipline, process pool with watchdog, replay I/O, delta-debugging,
known findings, evidence, exit protocol.

Rules kept everywhere in /verif/sim:
  * one integer (VERIF_SEED) decides everything; run seed = H(VERIF_SEED, property, index);
    every purpose draws from its own sub-stream so adding a draw never shifts another purpose;
  * logging never draws from a PRNG and never reads a clock;
  * a harness failure (watchdog, exception in the harness, determinism self-test mismatch) is a
    HARNESS-ERROR (exit 2) and never a VIOLATION and never exit 0.
"""
from __future__ import annotations

import hashlib
import json
import multiprocessing
import os
import pathlib
import random
import sys
import time
import traceback
from concurrent.futures import ProcessPoolExecutor
from typing import Any, Callable, Dict, Iterable, List, Optional, Sequence, Tuple

VERIF = pathlib.Path(__file__).resolve().parent.parent
GUARD = "LSPROTOCOL_VERIF_SIM"

EXIT_OK = 0
EXIT_VIOLATION = 1
EXIT_HARNESS = 2


class HarnessError(Exception):
    """Something went wrong in the machinery itself; never reported as a property violation."""


# --------------------------------------------------------------------------------------------
# seeds
# --------------------------------------------------------------------------------------------

def derive(*parts: Any) -> int:
    """Stable 63-bit integer from any printable parts (independent of PYTHONHASHSEED)."""
    h = hashlib.sha256("\x1f".join(str(p) for p in parts).encode("utf-8")).digest()
    return int.from_bytes(h[:8], "big") >> 1


def rng(seed: int, purpose: str) -> random.Random:
    return random.Random(derive(seed, purpose))


def digest(obj: Any) -> str:
    """Digest of a JSON-able object (canonical form)."""
    return hashlib.sha256(
        json.dumps(obj, sort_keys=True, separators=(",", ":"), default=str).encode("utf-8")
    ).hexdigest()[:20]


def base_seed(default: int) -> int:
    v = os.environ.get("VERIF_SEED")
    if v is None or v == "":
        return default
    try:
        return int(v)
    except ValueError:
        return derive("VERIF_SEED", v)


def repo_root() -> pathlib.Path:
    """The tree under test. Default /repo; VERIF_REPO points the same checks at a scratch copy
    (used by the sensitivity self-test and when trying seeded changes)."""
    return pathlib.Path(os.environ.get("VERIF_REPO", "/repo")).resolve()


def ensure_hashseed0() -> None:
    """Re-exec the checker with PYTHONHASHSEED=0 so set/dict order inside the harness (and inside
    typing/cattrs when they run in-process) is fixed.  The hash seed of the *system under test*
    (generator children) is a simulated input, chosen from the run seed."""
    if os.environ.get("PYTHONHASHSEED") is None:
        env = dict(os.environ)
        env["PYTHONHASHSEED"] = "0"
        os.execve(sys.executable, list(sys.orig_argv), env)


def scratch_base() -> pathlib.Path:
    """Scratch trees live on tmpfs when available; never under /repo or /verif."""
    for cand in ("/dev/shm", os.environ.get("TMPDIR") or "/tmp"):
        p = pathlib.Path(cand)
        if p.is_dir() and os.access(p, os.W_OK):
            return p
    raise HarnessError("no scratch directory available")


def scratch_owner_alive(d: pathlib.Path) -> bool:
    """Is the world directory d (lspv-w-<tag>, owner pid recorded in .owner) held by another live
    process?  A directory without an owner record counts as held while it is fresh (being created)."""
    try:
        pid = int((d / ".owner").read_text().strip())
    except (OSError, ValueError):
        try:
            return time.time() - d.stat().st_mtime < 10.0
        except OSError:
            return False
    if pid == os.getpid():
        return False
    try:
        os.kill(pid, 0)
        return True
    except ProcessLookupError:
        return False
    except PermissionError:
        return True


def cleanup_stale_scratch() -> int:
    """Remove scratch trees left behind by checker processes that no longer exist (a check killed by a
    timeout cannot remove its own worlds).  Only directories named lspv-<pid>-… whose pid is dead."""
    import re
    import shutil as _shutil

    n = 0
    base = scratch_base()
    for d in base.glob("lspv-*"):
        if d.name.startswith("lspv-w-"):
            try:
                mine = (d / ".owner").read_text().strip() == str(os.getpid())
            except OSError:
                mine = False
            if not mine and not scratch_owner_alive(d):
                _shutil.rmtree(d, ignore_errors=True)
                n += 1
            continue
        m = re.match(r"lspv-(?:mut-)?(\d+)-", d.name)
        if not m:
            continue
        try:
            os.kill(int(m.group(1)), 0)
            continue  # still alive
        except ProcessLookupError:
            pass
        except PermissionError:
            continue
        import shutil as _sh

        _sh.rmtree(d, ignore_errors=True)
        n += 1
    return n


# --------------------------------------------------------------------------------------------
# pool
# --------------------------------------------------------------------------------------------

def n_workers() -> int:
    v = os.environ.get("VERIF_WORKERS")
    if v:
        return max(1, int(v))
    return max(1, min(16, os.cpu_count() or 1))


def run_pool(
    fn: Callable[[Any], Any],
    tasks: Iterable[Any],
    workers: Optional[int] = None,
    initializer: Optional[Callable[..., None]] = None,
    initargs: Tuple = (),
    per_task_timeout: float = 300.0,
    on_result: Optional[Callable[[int, Any], bool]] = None,
    deadline: Optional[float] = None,
) -> List[Tuple[int, Any]]:
    """Run tasks on a fork pool; returns [(index, result)] sorted by index for the tasks that ran.
    A dead or hung worker raises HarnessError (never hangs, never exit 0).
    on_result may return True to stop early; deadline (time.monotonic value) stops submitting."""
    from concurrent.futures import FIRST_COMPLETED, wait

    workers = workers or n_workers()
    out: List[Tuple[int, Any]] = []
    ctx = multiprocessing.get_context("fork")
    ex = ProcessPoolExecutor(
        max_workers=workers, mp_context=ctx, initializer=initializer, initargs=initargs
    )
    try:
        pending: Dict[Any, int] = {}
        it = iter(enumerate(tasks))
        stop = False

        def submit_more() -> None:
            while not stop and len(pending) < workers * 2:
                if deadline is not None and time.monotonic() > deadline:
                    return
                try:
                    i, t = next(it)
                except StopIteration:
                    return
                pending[ex.submit(fn, t)] = i

        submit_more()
        while pending:
            done, _ = wait(list(pending), timeout=per_task_timeout, return_when=FIRST_COMPLETED)
            if not done:
                raise HarnessError(f"no task finished within {per_task_timeout}s (hung worker)")
            for fut in done:
                i = pending.pop(fut)
                try:
                    res = fut.result()
                except Exception as e:  # BrokenProcessPool, pickling, harness bug in worker
                    raise HarnessError(f"worker failed on task {i}: {e!r}") from e
                out.append((i, res))
                if on_result is not None and on_result(i, res):
                    stop = True
            if stop:
                for fut in list(pending):
                    if fut.cancel():
                        pending.pop(fut)
            else:
                submit_more()
    except BaseException:
        # error path: do not wait for hung workers
        procs = list((getattr(ex, "_processes", None) or {}).values())
        ex.shutdown(wait=False, cancel_futures=True)
        for p in procs:
            try:
                p.terminate()
            except Exception:
                pass
        raise
    else:
        # normal path: every submitted task is done (or cancelled); let the executor wind down cleanly
        # (terminating its workers under its feet makes its manager thread die with EBADF noise)
        ex.shutdown(wait=True, cancel_futures=True)
    out.sort(key=lambda x: x[0])
    return out


# --------------------------------------------------------------------------------------------
# known findings
# --------------------------------------------------------------------------------------------

class KnownFindings:
    """Committed list of genuine defects: 'known' entries are suppressed to a KNOWN-FINDING line,
    'fixed' entries suppress nothing.  Never written at run time."""

    def __init__(self, path: Optional[pathlib.Path] = None):
        self.path = path or (VERIF / "known_findings.json")
        data = {"known": [], "fixed": []}
        if self.path.exists():
            data = json.loads(self.path.read_text())
        self.known: List[Dict[str, Any]] = data.get("known", [])
        self.fixed: List[Dict[str, Any]] = data.get("fixed", [])

    def match(self, prop: str, signature: str) -> Optional[Dict[str, Any]]:
        for k in self.known:
            if k.get("property") == prop and k.get("signature") == signature:
                return k
        return None


# --------------------------------------------------------------------------------------------
# delta debugging
# --------------------------------------------------------------------------------------------

def ddmin(items: List[Any], fails: Callable[[List[Any]], bool], budget: int = 200) -> List[Any]:
    """Classic ddmin over a list; `fails(sub)` says whether the same violation persists."""
    n = 2
    cur = list(items)
    calls = 0
    while len(cur) >= 2 and calls < budget:
        chunk = max(1, len(cur) // n)
        subsets = [cur[i : i + chunk] for i in range(0, len(cur), chunk)]
        reduced = False
        for i in range(len(subsets)):
            comp = [x for j, s in enumerate(subsets) if j != i for x in s]
            calls += 1
            if comp and fails(comp):
                cur = comp
                n = max(n - 1, 2)
                reduced = True
                break
            if calls >= budget:
                break
        if not reduced:
            if n >= len(cur):
                break
            n = min(len(cur), n * 2)
    if len(cur) == 1 and calls < budget:
        if fails([]):
            return []
    return cur


# --------------------------------------------------------------------------------------------
# reporting
# --------------------------------------------------------------------------------------------

class Report:
    """Collects violations / known findings / harness errors of one check invocation and implements
    the exit protocol."""

    def __init__(self, prop: str, tier: str, seed: int):
        self.prop = prop
        self.tier = tier
        self.seed = seed
        self.t0 = time.monotonic()
        self.violations: List[Dict[str, Any]] = []
        self.known_hits: Dict[str, Dict[str, Any]] = {}
        self.harness_errors: List[str] = []
        self.soft_errors: List[str] = []
        self.kf = KnownFindings()

    def log(self, msg: str) -> None:
        print(f"[{self.prop}] {msg}", flush=True)

    def add_violation(self, signature: str, message: str, replay: Dict[str, Any]) -> bool:
        """Returns True if it is a new (not known) violation."""
        k = self.kf.match(self.prop, signature)
        if k is not None:
            self.known_hits.setdefault(signature, k)
            return False
        for v in self.violations:
            if v["signature"] == signature:
                v["count"] += 1
                return False
        self.violations.append(
            {"signature": signature, "message": message, "replay": replay, "count": 1}
        )
        return True

    def harness_error(self, msg: str, soft: bool = False) -> None:
        """soft: a determinism / fresh-process-replay mismatch.  On its own it is a harness error; when
        the same invocation also found property violations it is reported as a note instead, because a
        tree under test whose behaviour depends on memory addresses (e.g. a registry keyed by id() of
        dead objects) is itself the source of the nondeterminism and must not hide behind exit 2."""
        (self.soft_errors if soft else self.harness_errors).append(msg)

    def write_replay(self, v: Dict[str, Any]) -> pathlib.Path:
        d = VERIF / "replays"
        d.mkdir(exist_ok=True)
        tag = hashlib.sha256(v["signature"].encode()).hexdigest()[:8]
        p = d / f"{self.prop}-{v['replay'].get('run_seed', 0)}-{tag}.json"
        body = dict(v["replay"])
        body["property"] = self.prop
        body["signature"] = v["signature"]
        body["message"] = v["message"]
        p.write_text(json.dumps(body, indent=1, sort_keys=True, default=str) + "\n")
        return p

    def finish(self, coverage: Dict[str, Any], assumptions: List[str], level: str = "exploration") -> int:
        wall = time.monotonic() - self.t0
        ev = {
            "property_id": self.prop,
            "tier": self.tier,
            "seed": self.seed,
            "level": level,
            "coverage": coverage,
            "assumptions": assumptions,
            "wall_s": round(wall, 2),
            "violations": len(self.violations),
        }
        coverage.setdefault("known_findings_printed", sorted(self.known_hits))
        if self.soft_errors and not self.violations:
            self.harness_errors.extend(self.soft_errors)
        coverage.setdefault("harness_errors", self.harness_errors[:5])
        coverage.setdefault("nondeterminism_notes", self.soft_errors[:5] if self.violations else [])
        evdir = VERIF / "evidence"
        evdir.mkdir(exist_ok=True)
        (evdir / f"{self.prop}.json").write_text(json.dumps(ev, indent=1, default=str) + "\n")
        for sig, k in sorted(self.known_hits.items()):
            print(f"KNOWN-FINDING: property={self.prop} {k.get('what', sig)}", flush=True)
        if self.harness_errors:
            for h in self.harness_errors[:10]:
                print(f"HARNESS-ERROR: property={self.prop} {h}", flush=True)
            return EXIT_HARNESS
        if self.violations:
            for n in self.soft_errors[:5]:
                print(f"  note: nondeterminism observed together with the violations below (the tree under test may depend on memory addresses): {n[:200]}", flush=True)
            for v in self.violations:
                p = v.get("replay_path") or self.write_replay(v)
                print(f"  violation: {v['signature']} :: {v['message'][:300]} (x{v['count']})", flush=True)
                print(f"VIOLATION property={self.prop} replay={p}", flush=True)
            return EXIT_VIOLATION
        self.log(f"ok: {coverage.get('evaluations')} runs, wall {wall:.1f}s")
        return EXIT_OK


def fmt_exc(e: BaseException) -> str:
    return "".join(traceback.format_exception_only(type(e), e)).strip()

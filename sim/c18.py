"""C18 — model loading is lossless, merge is concatenation, invalid models write nothing.

The model file is the system's only stored state.  One simulated run is a file history (schema-valid
evolution edits, annotation-only edits, splits, storage faults) with a load after every step:
  * loader clauses run the real generator.model in-process on the documents the history produces;
  * the gate clause runs the real CLI out-of-process (genworld shim: audit log of file-system
    mutations, plugin-execution probe, tree snapshot) on every document that the reference validator
    (same schema, root = MetaModel) classifies as not-JSON or schema-invalid.
A second family of runs enumerates every (schema definition, keyword) single-edit violation class
x 4 plugins x {single file, second file of a merge}.
"""
from __future__ import annotations

import copy
import json
import os
import pathlib
import random
import re
import shutil
import sys
import time
from typing import Any, Dict, List, Optional, Tuple

from . import core, genworld as gw, models, schema
from .c16 import _exc_class, _place

PROP = "C18"
G: Dict[str, Any] = {}


def init() -> None:
    """Load the tree under test: generator.model, schema, base document (once per process tree)."""
    if G:
        return
    root = core.repo_root()
    sys.dont_write_bytecode = True
    sys.path.insert(0, str(root))
    import generator.model as gm

    got = os.path.realpath(gm.__file__)
    want = os.path.realpath(str(root / "generator" / "model.py"))
    if got != want:
        raise core.HarnessError(f"generator.model imported from {got}, expected {want}")
    import attrs

    sch = json.loads((root / "generator" / "lsp.schema.json").read_text(encoding="utf-8"))
    G.update(gm=gm, attrs=attrs, ref=schema.Ref(sch), base=json.loads((root / "generator" / "lsp.json").read_text(encoding="utf-8")))
    G["classes"] = schema.violation_classes(G["ref"])
    schema._REF_FOR_WALK[:] = [G["ref"]]


# --------------------------------------------------------------------------------------------
# read-back of a loaded model (reference: generic walk over attrs fields)
# --------------------------------------------------------------------------------------------

def readback(x: Any) -> Any:
    attrs = G["attrs"]
    if isinstance(x, list):
        return [readback(v) for v in x]
    if isinstance(x, tuple):
        return [readback(v) for v in x]
    if attrs.has(type(x)):
        out = {}
        for a in attrs.fields(type(x)):
            if a.name == "id_":
                continue
            v = getattr(x, a.name)
            if v is None:
                continue
            if a.name in ("extends", "mixins") and v == []:
                continue
            out[a.name] = readback(v)
        return out
    if isinstance(x, dict):
        return {k: readback(v) for k, v in x.items()}
    return x


def norm_doc(x: Any) -> Any:
    """The document as the read-back sees it: empty extends/mixins dropped (absent and [] are the same
    model); nothing else is touched."""
    if isinstance(x, dict):
        return {k: norm_doc(v) for k, v in x.items() if not (k in ("extends", "mixins") and v == [])}
    if isinstance(x, list):
        return [norm_doc(v) for v in x]
    return x


def first_diff(a: Any, b: Any, path: str = "") -> Optional[str]:
    if type(a) is not type(b) and not (isinstance(a, (int, float)) and isinstance(b, (int, float)) and not isinstance(a, bool) and not isinstance(b, bool)):
        return f"{path}: {type(a).__name__} {str(a)[:60]!r} vs {type(b).__name__} {str(b)[:60]!r}"
    if isinstance(a, dict):
        for k in a:
            if k not in b:
                return f"{path}/{k}: missing after load"
        for k in b:
            if k not in a:
                return f"{path}/{k}: appeared after load ({str(b[k])[:60]!r})"
        for k in a:
            d = first_diff(a[k], b[k], f"{path}/{k}")
            if d:
                return d
        return None
    if isinstance(a, list):
        if len(a) != len(b):
            return f"{path}: {len(a)} items in the document, {len(b)} after load"
        for i, (x, y) in enumerate(zip(a, b)):
            d = first_diff(x, y, f"{path}[{i}]")
            if d:
                return d
        return None
    return None if a == b else f"{path}: {a!r} vs {b!r}"


def path_class(d: str) -> str:
    """Stable class of a diff location: indices and names removed."""
    loc = d.split(":", 1)[0]
    return re.sub(r"\[\d+\]", "[]", loc)[:80]


def norm_exc(e: BaseException) -> str:
    msg = str(e).split("\n")[0]
    m = re.search(r"Unknown LSP type: .*?'kind': '(\w+)'", msg)
    if m:
        return f"{type(e).__name__}:Unknown LSP type:{m.group(1)}"
    m = re.search(r"(\w+)\.__init__\(\) got an unexpected keyword argument '(\w+)'", msg)
    if m:
        key = "annotation" if m.group(2) in schema.ANNOTATION_KEYS else m.group(2)
        return f"{type(e).__name__}:{m.group(1)}-unexpected-keyword:{key}"
    m = re.search(r"'(\w+)' object has no attribute '(\w+)'", msg)
    if m:
        return f"{type(e).__name__}:{m.group(1)}.{m.group(2)}"
    m = re.search(r"(\w+)\.__init__\(\) missing \d+ required", msg)
    if m:
        return f"{type(e).__name__}:{m.group(1)}-missing-required"
    m = re.search(r"'(\w+)' must be .*?that is a <class '(\w+)'>", msg)
    if m:
        return f"{type(e).__name__}:{m.group(1)}-rejects-{m.group(2)}"
    msg = re.sub(r"'[^']*'", "'…'", msg)
    msg = re.sub(r"\d+", "N", msg)
    return f"{type(e).__name__}:{msg[:60]}"


# --------------------------------------------------------------------------------------------
# run generation
# --------------------------------------------------------------------------------------------

BYTE_FAULTS = ["truncate", "flip_structural", "flip_any", "zero_block", "duplicate", "empty", "bom", "toplevel", "trailing", "nan", "dupkey", "nesting_bomb"]


def gen_history(run_seed: int, tier: str) -> Dict[str, Any]:
    r = core.rng(run_seed, "ops")
    x = r.random()
    if x < 0.04:
        base: Dict[str, Any] = {"base": "full"}
    elif x < 0.12:
        base = {"base": "synth"}
    else:
        base = {"base": "sub", "sub_seed": r.randrange(2**40), "lo": 1, "hi": 5}
    n = r.randint(3, 14)
    ops: List[List[Any]] = []
    for _ in range(n):
        y = r.random()
        if y < 0.45:
            ops.append(["EDIT", r.randrange(2**40), r.choice([0.0, 0.0, 0.02, 0.05])])
        elif y < 0.60:
            ops.append(["ANNOT", r.randrange(2**40)])
        elif y < 0.75:
            ops.append(["SPLIT", r.choice([2, 2, 3, 4]), r.randrange(2**40)])
        elif y < 0.90:
            ops.append(["FAULT", r.choice(BYTE_FAULTS), r.randrange(2**40), r.choice(gw.PLUGINS), r.random() < 0.3])
        else:
            ops.append(["RELOAD"])
    return {"kind": "history", "run_seed": run_seed, "base": base, "ops": ops}


DIRECTED = [
    # (name, python expression applied to a loadable synthetic document `d`) — the exact inputs of the
    # committed known findings, re-tried on every run so that each KNOWN-FINDING line is printed (or
    # disappears once the defect is repaired) independently of what the seeded histories happen to hit
    ("alias-integerLiteral", "d['typeAliases'].append({'name': 'KF1', 'type': {'kind': 'integerLiteral', 'value': 1}})"),
    ("alias-booleanLiteral", "d['typeAliases'].append({'name': 'KF2', 'type': {'kind': 'booleanLiteral', 'value': False}})"),
    ("enum-float-value", "d['enumerations'].append({'name': 'KF3', 'type': {'kind': 'base', 'name': 'uinteger'}, 'values': [{'name': 'V1', 'value': 1.5}]})"),
]


def run_directed(t: Dict[str, Any]) -> Dict[str, Any]:
    init()
    probes = _probes()
    viol: List[Dict[str, str]] = []
    d = schema.synth_doc(loadable=True)
    exec(t["expr"], {"d": d})
    if not G["ref"].is_valid(d):
        return _result(t, [], probes, skipped="directed document is not schema-valid")
    probes["loads"] += 1
    try:
        m = _load([d])
        diff = first_diff(norm_doc(d), readback(m))
        if diff:
            viol.append({"sig": f"readback-differs:{path_class(diff)}", "msg": f"directed {t['name']}: {diff}"})
    except Exception as e:
        probes["load_rejected_valid"] += 1
        viol.append({"sig": f"load-rejected:{norm_exc(e)}", "msg": f"directed {t['name']}: schema-valid document rejected by create_lsp_model: {core.fmt_exc(e)[:300]}"})
    return _result(t, viol, probes, evlog=[t["name"], [v["sig"] for v in viol]])


def run_truncation(t: Dict[str, Any]) -> Dict[str, Any]:
    """Torn write of the model file at a given offset (systematic sweep): the gate must hold."""
    init()
    probes = _probes()
    doc = _sub_for_gate(t["sub_seed"])
    data = models.dumps(doc)
    cut = min(len(data) - 1, int(len(data) * t["frac"]))
    bad = data[:cut]
    cls, parsed = G["ref"].classify(bad)
    if cls == "valid":
        return _result(t, [], probes, skipped="truncation kept the document valid")
    probes["fault_not_json" if cls == "not-json" else "fault_schema_invalid"] += 1
    probes["truncation_points"] += 1
    w = gw.World(f"c18t-{t['run_seed']}")
    try:
        if t["position"] == "second":
            files = w.write_models("m", [models.dumps(_sub_for_gate(t["sub_seed"] + 1)), bad])
        else:
            files = w.write_models("m", [bad])
        viol = gate_check(w, t["plugin"], files, t["prepopulate"], t["run_seed"], "not JSON" if cls == "not-json" else "schema-invalid", probes)
    finally:
        w.destroy()
    for v in viol:
        v["sig"] += ":truncate"
        v["msg"] += f" [model file torn at byte {cut} of {len(data)}]"
    return _result(t, viol, probes, evlog=["truncate", cut, len(data), t["plugin"], t["position"], [v["sig"] for v in viol]])


def run_cli_merge(t: Dict[str, Any]) -> Dict[str, Any]:
    """Merge through the real command line: `--model f1 f2 ..` (file names deliberately NOT in sorted
    order, later files with another metaData.version) must give the plugin exactly what the single
    file holding the in-order concatenation gives it — observed through the plugin's output."""
    init()
    probes = _probes()
    r = core.rng(t["run_seed"], "cli-merge")
    doc = _sub_for_gate(t["sub_seed"])
    parts = models.split(doc, r, t["k"])
    for i, p_ in enumerate(parts[1:]):
        p_["metaData"] = {"version": f"9.{i}.later-file"}
    want = models.merge_reference(parts)
    names = ["zz-first.json", "mm-second.json", "aa-third.json", "kk-fourth.json"][: t["k"]]
    repeat = core.derive(t["run_seed"], "repeat") % 3 == 0  # the first file named again at the end / spelled differently
    w = gw.World(f"c18m-{t['run_seed']}")
    viol: List[Dict[str, str]] = []
    try:
        d = w.path("models")
        d.mkdir(parents=True)
        files = []
        for nm, p_ in zip(names, parts):
            (d / nm).write_bytes(models.dumps(p_))
            files.append(str(d / nm))
        if not repeat and core.derive(t["run_seed"], "odd") % 3 == 0:
            files = odd_names(files, t["run_seed"])
            probes["model_path_odd_names"] += 1
        if repeat:
            files.append(os.path.join(str(d), ".", names[0]) if core.derive(t["run_seed"], "spell") % 2 else files[0])
            want = models.merge_reference(parts + [parts[0]])
            probes["cli_merge_repeated_path"] += 1
        (d / "merged.json").write_bytes(models.dumps(want))
        env = gw.env_for(0, "", random.Random(0), default=True)
        r1 = gw.run_generator(w, t["plugin"], str(w.path("out_parts")), str(w.path("td1")), files, env)
        r2 = gw.run_generator(w, t["plugin"], str(w.path("out_merged")), str(w.path("td2")), [str(d / "merged.json")], env)
        probes["cli_merge_runs"] += 1
        if r2["rc"] != 0:
            return _result(t, [], probes, skipped=f"plugin cannot generate the merged model: {_exc_class(r2['stderr_tail'])}")
        if r1["rc"] != 0:
            viol.append({"sig": f"cli-merge-failed:{_exc_class(r1['stderr_tail'])}", "msg": f"`--model {' '.join(os.path.basename(f_) for f_ in files)}` exits {r1['rc']} although the single merged file generates fine"})
        else:
            df = gw.diff_trees(gw.owned_files(t["plugin"], w.path("out_merged")), gw.owned_files(t["plugin"], w.path("out_parts")))
            if df:
                viol.append({"sig": f"cli-merge-differs:{t['plugin']}", "msg": f"`--model {' '.join(os.path.basename(f_) for f_ in files)}` does not give plugin {t['plugin']} the first model extended in order by the others: {df[1][:300]}"})
    finally:
        w.destroy()
    return _result(t, viol, probes, evlog=["cli-merge", t["k"], t["plugin"], [v["sig"] for v in viol]])


def run_gate_multi(t: Dict[str, Any]) -> Dict[str, Any]:
    """Many schema violations at once (counts around powers of two): the command must still fail."""
    init()
    ref: schema.Ref = G["ref"]
    probes = _probes()
    doc = _sub_for_gate(t["sub_seed"])
    n = t["n"]
    doc["structures"].append({"name": "SimManyProps", "properties": [{"name": f"p{i}", "type": {"kind": "base", "name": "string"}, "optional": True} for i in range(max(n, 4) + 3)]})
    if not ref.is_valid(doc):
        return _result(t, [], probes, skipped="multi-violation base document invalid")
    for i in range(n):
        doc["structures"][-1]["properties"][i]["optional"] = "true"  # wrong JSON type, one error each
    n_err = sum(1 for _ in ref.validator.iter_errors(doc))
    probes["multi_violation_docs"] += 1
    w = gw.World(f"c18x-{t['run_seed']}")
    try:
        good = _sub_for_gate(t["sub_seed"] + 1)
        order = [doc] if t["position"] == "single" else ([doc, good] if t["position"] == "first" else [good, doc])
        files = w.write_models("m", [models.dumps(x) for x in order])
        viol = gate_check(w, t["plugin"], files, t["prepopulate"], t["run_seed"], "schema-invalid", probes)
    finally:
        w.destroy()
    for v in viol:
        v["sig"] += ":multi"
        v["msg"] += f" [{n} simultaneous violations = {n_err} schema errors, position={t['position']}]"
    return _result(t, viol, probes, evlog=["multi", n, n_err, t["plugin"], t["position"], [v["sig"] for v in viol]])


def gen_gate_tasks(seed: int, tier: str) -> List[Dict[str, Any]]:
    init()
    tasks = []
    classes = G["classes"]
    r = core.rng(seed, "gate-classes")
    for ci, cls in enumerate(classes):
        if tier == "quick":
            combos = [(r.choice(gw.PLUGINS), "single"), (r.choice(gw.PLUGINS), "second"), (r.choice(gw.PLUGINS), r.choice(["first", "first", "middle", "twice"]))]
        else:
            combos = [(p, pos) for p in gw.PLUGINS for pos in ("single", "second", "first", "middle", "twice")]
        for p, pos in combos:
            rs = core.derive(seed, PROP, "gate", ci, p, pos)
            tasks.append({"kind": "gate_class", "run_seed": rs, "cls": list(cls), "plugin": p, "position": pos,
                          "sub_seed": core.derive(rs, "sub") % 2**40, "prepopulate": core.derive(rs, "prepop") % 3})
    # the default model path (no --model): a scratch copy of the tree's generator/ package whose
    # lsp.json is the violating document
    n_def = 16 if tier == "quick" else len(classes)
    for i, ci in enumerate(r.sample(range(len(classes)), n_def)):
        p = gw.PLUGINS[i % 4]
        rs = core.derive(seed, PROP, "gate-default", ci, p)
        tasks.append({"kind": "gate_class", "run_seed": rs, "cls": list(classes[ci]), "plugin": p, "position": "default",
                      "sub_seed": core.derive(rs, "sub") % 2**40, "prepopulate": core.derive(rs, "prepop") % 3})
    # the exact inputs of the committed known findings
    for i, (name, expr) in enumerate(DIRECTED):
        tasks.append({"kind": "directed", "run_seed": core.derive(seed, PROP, "directed", i), "name": name, "expr": expr})
    # torn model file at evenly spaced offsets (systematic)
    n_cut = 24 if tier == "quick" else 400
    for i in range(n_cut):
        rs = core.derive(seed, PROP, "truncate", i)
        tasks.append({"kind": "truncation", "run_seed": rs, "frac": (i + 0.5) / n_cut, "plugin": gw.PLUGINS[i % 4], "position": "second" if i % 3 == 2 else "single",
                      "sub_seed": core.derive(seed, PROP, "truncate-model") % 2**40, "prepopulate": i % 3})
    # undeclared top-level keys under every spelling of the pool (`$schema`, `$comment`, `version`, …)
    top = next(i for i, c in enumerate(classes) if c[0] == "MetaModel" and c[1] == "additionalProperties")
    for i in range(14 if tier == "quick" else 60):
        rs = core.derive(seed, PROP, "gate-topkey", i)
        tasks.append({"kind": "gate_class", "run_seed": rs, "cls": list(classes[top]), "plugin": gw.PLUGINS[i % 4], "position": ["single", "first", "second"][i % 3],
                      "sub_seed": core.derive(rs, "sub") % 2**40, "prepopulate": i % 3})
    # several violations at once, counts around powers of two (exit statuses wrap at 256)
    counts = [2, 3, 255, 256, 257, 512] if tier == "quick" else [2, 3, 7, 64, 127, 128, 129, 255, 256, 257, 511, 512, 513, 768, 1024, 4096]
    for i, n in enumerate(counts):
        for j, pos in enumerate(["single", "first", "second"] if tier != "quick" else [["single", "first", "second"][i % 3]]):
            rs = core.derive(seed, PROP, "gate-multi", n, pos)
            tasks.append({"kind": "gate_multi", "run_seed": rs, "n": n, "plugin": gw.PLUGINS[(i + j) % 4], "position": pos,
                          "sub_seed": core.derive(rs, "sub") % 2**40, "prepopulate": (i + j) % 3})
    # merge through the real command line (valid files): argv order, first file's metaData
    for i in range(12 if tier == "quick" else 120):
        rs = core.derive(seed, PROP, "cli-merge", i)
        tasks.append({"kind": "cli_merge", "run_seed": rs, "k": 2 + i % 3, "plugin": ["python", "rust", "python", "dotnet"][i % 4], "sub_seed": core.derive(rs, "sub") % 2**40})
    # unreadable model files
    for i, (p, how) in enumerate([(p, how) for p in gw.PLUGINS for how in ("enoent", "eio", "directory")]):
        rs = core.derive(seed, PROP, "gate-unreadable", i)
        tasks.append({"kind": "gate_unreadable", "run_seed": rs, "plugin": p, "how": how, "position": "second" if i % 2 else "single",
                      "sub_seed": core.derive(rs, "sub") % 2**40, "prepopulate": i % 3})
    # a model file that changes between two reads
    for i, p in enumerate(gw.PLUGINS * (2 if tier == "quick" else 12)):
        rs = core.derive(seed, PROP, "gate-reread", i)
        tasks.append({"kind": "gate_reread", "run_seed": rs, "plugin": p, "position": "second" if i % 2 else "single", "sub_seed": core.derive(rs, "sub") % 2**40})
    return tasks


# --------------------------------------------------------------------------------------------
# byte-level storage faults
# --------------------------------------------------------------------------------------------

def byte_fault(data: bytes, kind: str, r: random.Random) -> bytes:
    if kind == "truncate":
        return data[: r.randrange(0, max(1, len(data)))]
    if kind == "empty":
        return b""
    if kind == "bom":
        return b"\xef\xbb\xbf" + data if r.random() < 0.5 else data.decode("utf-8").encode("utf-16")
    if kind == "nesting_bomb":
        # valid JSON syntax nested far beyond any recursion limit
        n_ = r.choice([2000, 100000])
        return b"[" * n_ + b"]" * n_ if r.random() < 0.5 else b'{"requests":' * n_ + b"1" + b"}" * n_
    if kind == "toplevel":
        # valid JSON, but not a metamodel object at all
        return r.choice([b"[]", b"null", b'"x"', b"0", b"true", b"{}", b"[" + data + b"]", b'{"metaModel": ' + data + b"}"])
    if kind == "trailing":
        return data + r.choice([b"garbage", b"{}", b"\x00", b"]", b"\n" + data])
    if kind == "nan":
        # Python's json accepts these non-standard literals
        i = data.find(b'"value": ')
        lit = r.choice([b"NaN", b"Infinity", b"-Infinity", b"1e400"])
        return data[: i + 9] + lit + b"," + b'"simPad": 1' + data[i + 9:] if i >= 0 and r.random() < 0.3 else data.replace(b'"version": "', b'"version": ' + lit + b', "simOld": "', 1)
    if kind == "dupkey":
        # duplicated key in the JSON text: the last one wins in json.load
        return data.replace(b'"metaData": {', b'"metaData": {"version": 7, ', 1) if r.random() < 0.5 else data.replace(b'"requests": [', b'"requests": "x", "requests": [', 1)
    if kind == "duplicate":
        return data + data[r.randrange(0, len(data)):] if r.random() < 0.5 else data + data
    if kind == "zero_block":
        i = r.randrange(0, max(1, len(data) - 1))
        n = r.choice([1, 16, 512])
        return data[:i] + b"\0" * min(n, len(data) - i) + data[i + n:]
    if kind == "flip_any":
        i = r.randrange(len(data))
        return data[:i] + bytes([data[i] ^ (1 << r.randrange(8))]) + data[i + 1:]
    # flip_structural: inside a key, a kind value, a name, a digit or punctuation
    toks = [m for m in re.finditer(rb'"(kind|name|method|messageDirection|type|value|properties|items|element|key|optional|result|params|values|version|extends|mixins)"|"(base|reference|array|map|and|or|tuple|literal|stringLiteral|string|integer|uinteger|clientToServer|serverToClient|both)"|[0-9]+|true|false|[\[\]{}:,]', data)]
    if not toks:
        return byte_fault(data, "flip_any", r)
    m = r.choice(toks)
    i = r.randrange(m.start(), m.end())
    return data[:i] + bytes([data[i] ^ (1 << r.randrange(7))]) + data[i + 1:]


# --------------------------------------------------------------------------------------------
# gate (out of process)
# --------------------------------------------------------------------------------------------

MUTATION_EVENTS = {"audit_open_w", "open_w", "os.mkdir", "os.rmdir", "os.remove", "os.rename", "os.symlink", "os.link", "os.truncate",
                   "shutil.rmtree", "shutil.copyfile", "shutil.move"}


def gate_check(w: gw.World, plugin: str, files: Optional[List[str]], prepopulate: int, seed: int, what: str, probes: Dict[str, int],
               fault: Optional[Dict[str, Any]] = None, repo: Optional[pathlib.Path] = None) -> List[Dict[str, str]]:
    """Run the CLI on model files of which at least one is not a valid metamodel; the command must
    fail before any plugin runs, with nothing written."""
    viol: List[Dict[str, str]] = []
    k = w.n_invocations + 1
    out = w.path(f"gate{k}_out")
    td = w.path(f"gate{k}_td")
    if prepopulate == 1:
        _place("stale_owned", seed, plugin, out, {"stale_owned_placed": 0})
        probes["gate_prepopulated"] += 1
    elif prepopulate == 2:
        _place("committed_copy", seed, plugin, out, {"committed_copy_placed": 0})
        _place("stale_owned", seed, plugin, out, {"stale_owned_placed": 0})
        probes["gate_prepopulated"] += 1
    env = gw.env_for(seed, "gate", random.Random(seed))
    if (env.get("machine") or {}).get("tools"):
        gw.fake_tools(w, env["machine"]["tools"])  # the simulator's own files: in place before the snapshot
    before = gw.snapshot(w.base)
    res = gw.run_generator(w, plugin, str(out), str(td), files, env, fault=fault, root=str(w.base), repo=repo)
    after = gw.snapshot(w.base)
    # the simulator's own files of this invocation
    own = {f"inv{w.n_invocations}.log", f"inv{w.n_invocations}.conf.json"}
    changed = sorted(k_ for k_ in set(before) | set(after) if before.get(k_) != after.get(k_) and k_ not in own)
    muts = [e for e in res["events"] if e["ev"] in MUTATION_EVENTS and "__pycache__" not in str(e.get("path"))]
    ran = [e for e in res["events"] if e["ev"] == "plugin_code_ran"]
    probes["gate_invocations"] += 1
    if any(e["ev"] == "probe_unavailable" for e in res["events"]):
        probes["plugin_probe_unavailable"] += 1
    if res["rc"] == 0:
        viol.append({"sig": f"gate:exit-0:{what}", "msg": f"plugin {plugin}: the generator command exited 0 although a model file is {what}"})
    if ran:
        viol.append({"sig": f"gate:plugin-ran:{what}", "msg": f"plugin {plugin}: plugin code ran ({ran[0].get('file')}:{ran[0].get('func')}) although a model file is {what}"})
    if muts or changed:
        first = muts[0] if muts else {"ev": "tree-changed", "path": changed[0]}
        viol.append({"sig": f"gate:wrote:{what}", "msg": f"plugin {plugin}: file system changed ({first['ev']} {first.get('path')}; {len(muts)} mutation events, {len(changed)} changed paths) although a model file is {what}"})
    return viol


def _sub_for_gate(sub_seed: int) -> Dict[str, Any]:
    from .c16 import build_model  # same plugin-accepted sub-models as C16

    return json.loads(build_model({"base": "sub", "sub_seed": sub_seed, "lo": 2, "hi": 4})[0])


def odd_names(files: List[str], run_seed: int) -> List[str]:
    """Move the written model files under directory and file names with characters that mean something
    to globbing, shells, expanduser/expandvars or argument splitting (to the generator they are plain
    names); the same path named twice stays the same path named twice."""
    pr_ = core.rng(run_seed, "oddnames")
    moved: Dict[str, str] = {}
    for i_, f_ in enumerate(files):
        if f_ in moved:
            continue
        dn = pr_.choice(["models[draft]", "m[0-9]", "mod?ls", "m*", "{a,b}", "~user", "$HOME", "my models", "%TEMP%", "m#1;", "na\u00efve-\u6a21\u578b", "a=b", "@list"])
        fn = pr_.choice(["bad[1].json", "m[ab].json", "b*d.json", "what?.json", "a b.json", "$x.json", "~.json", "m.json", "m.JSON", "m.json.bak", "m"])
        nd = os.path.join(os.path.dirname(f_), f"{i_}", dn)
        os.makedirs(nd, exist_ok=True)
        moved[f_] = os.path.join(nd, fn)
        os.replace(f_, moved[f_])
    return [moved[f_] for f_ in files]


def run_gate_class(t: Dict[str, Any]) -> Dict[str, Any]:
    init()
    ref: schema.Ref = G["ref"]
    r = core.rng(t["run_seed"], "gate")
    probes = _probes()
    cls = tuple(t["cls"])
    doc = _sub_for_gate(t["sub_seed"])
    res = schema.apply_violation(doc, ref, cls, r)
    used = "sub"
    if res is None:
        doc = schema.synth_doc(loadable=True)
        res = schema.apply_violation(doc, ref, cls, r)
        used = "synth"
    if res is None:
        doc = schema.synth_doc(loadable=False)
        res = schema.apply_violation(doc, ref, cls, r)
        used = "synth-full"
    if res is None:
        return _result(t, [], probes, skipped=f"no node for class {cls}")
    bad, path = res
    kind, _ = ref.classify(models.dumps(bad))
    if kind == "valid":
        return _result(t, [], probes, skipped=f"edit for class {cls} kept the document valid")
    probes["violation_class_fired"] += 1
    if core.derive(t["run_seed"], "deep") % 6 == 0 and isinstance(bad.get("typeAliases"), list):
        # the violation sits in a document that also holds a (valid) type nested 120-250 levels deep:
        # validators that give up on deep documents must not let the rest of the document through
        depth = [120, 150, 200, 250][core.derive(t["run_seed"], "deepn") % 4]
        node: Dict[str, Any] = {"kind": "base", "name": "string"}
        for _ in range(depth):
            node = {"kind": "array", "element": node}
        bad = copy.deepcopy(bad)
        bad["typeAliases"].append({"name": "SimDeeplyNestedAlias", "type": node})
        probes["violation_next_to_deep_nesting"] += 1
    w = gw.World(f"c18g-{t['run_seed']}")
    try:
        tree = None
        if t["position"] == "default":
            tree = w.path("tree")
            shutil.copytree(core.repo_root() / "generator", tree / "generator", ignore=shutil.ignore_patterns("__pycache__"))
            (tree / "generator" / "lsp.json").write_bytes(models.dumps(bad))
            files = None
            probes["default_model_bad"] += 1
        elif t["position"] in ("second", "first", "middle", "twice"):
            good = _sub_for_gate(core.derive(t["run_seed"], "good") % 2**40)
            good2 = _sub_for_gate(core.derive(t["run_seed"], "good2") % 2**40)
            order = {"second": [good, bad], "first": [bad, good], "middle": [good, bad, good2], "twice": [bad]}[t["position"]]
            files = w.write_models("m", [models.dumps(x) for x in order])
            if t["position"] == "twice":
                files = files * 2  # the same (bad) path named twice
            probes["second_file_bad" if t["position"] == "second" else "first_file_bad"] += 1
        else:
            files = w.write_models("m", [models.dumps(bad)])
        if files and core.derive(t["run_seed"], "spell") % 4 == 0:
            # the model file reached through a symbolic link / a path with `..`
            spelled = []
            for i_, f_ in enumerate(files):
                if i_ % 2 == 0:
                    lnk = os.path.join(os.path.dirname(f_), f"link-{i_}.json")
                    if not os.path.lexists(lnk):
                        os.symlink(f_, lnk)
                    spelled.append(lnk)
                else:
                    spelled.append(os.path.join(os.path.dirname(f_), "..", os.path.basename(os.path.dirname(f_)), os.path.basename(f_)))
            files = spelled
            probes["model_path_symlink_or_dotdot"] += 1
        elif files and core.derive(t["run_seed"], "spell") % 4 == 1:
            # directory and file names with characters that mean something to globbing, shells,
            # expanduser/expandvars or argument splitting: to the generator they are plain names
            files = odd_names(files, t["run_seed"])
            probes["model_path_odd_names"] += 1
        viol = gate_check(w, t["plugin"], files, t["prepopulate"], t["run_seed"], "schema-invalid", probes, repo=tree)
    finally:
        w.destroy()
    for v in viol:
        v["msg"] += f" [violation class {cls[0]}.{cls[1]}({cls[2]}) at {'/'.join(map(str, path))}, base={used}, position={t['position']}]"
        v["sig"] += f":{cls[0]}.{cls[1]}"
    return _result(t, viol, probes, evlog=[list(cls), used, t["plugin"], t["position"], [v["sig"] for v in viol]])


def run_gate_unreadable(t: Dict[str, Any]) -> Dict[str, Any]:
    init()
    probes = _probes()
    good = _sub_for_gate(t["sub_seed"])
    w = gw.World(f"c18u-{t['run_seed']}")
    try:
        files = w.write_models("m", [models.dumps(good), models.dumps(good)] if t["position"] == "second" else [models.dumps(good)])
        fault = None
        target = files[-1]
        if t["how"] == "enoent":
            os.remove(target)
        elif t["how"] == "directory":
            os.remove(target)
            os.mkdir(target)
        else:
            fault = {"on": "read", "kind": "eio", "path_suffix": os.path.basename(target)}
        probes["unreadable_" + t["how"]] += 1
        viol = gate_check(w, t["plugin"], files, t["prepopulate"], t["run_seed"], "unreadable", probes, fault=fault)
    finally:
        w.destroy()
    for v in viol:
        v["sig"] += f":{t['how']}"
    return _result(t, viol, probes, evlog=[t["how"], t["plugin"], t["position"], [v["sig"] for v in viol]])


def run_gate_reread(t: Dict[str, Any]) -> Dict[str, Any]:
    """The model file is rewritten (by someone else) after the generator read it once: if the generator
    reads it a second time, what it loads is not what it validated.  The pinned tree reads every model
    file exactly once, so the fault never fires there; when it does fire, the second content is
    schema-invalid and the command must still fail before any plugin runs."""
    init()
    probes = _probes()
    good = _sub_for_gate(t["sub_seed"])
    ref = G["ref"]
    rnd = core.rng(t["run_seed"], "reread")
    bad = None
    for _ in range(60):
        cls = rnd.choice(G["classes"])
        res = schema.apply_violation(copy.deepcopy(good), ref, cls, rnd)
        if res is not None and ref.classify(models.dumps(res[0]))[0] != "valid":
            try:  # only a violation the typed loader itself tolerates can get past a skipped validation
                _load([res[0]])
            except Exception:
                continue
            bad = res[0]
            break
    if bad is None:
        return _result(t, [], probes, skipped="no violation applicable")
    w = gw.World(f"c18r-{t['run_seed']}")
    viol: List[Dict[str, str]] = []
    try:
        files = w.write_models("m", [models.dumps(good), models.dumps(good)] if t["position"] == "second" else [models.dumps(good)])
        alt = w.path("alt.json")
        alt.write_bytes(models.dumps(bad))
        target = files[-1]
        env = gw.env_for(t["run_seed"], "gate", random.Random(t["run_seed"]))
        res_ = gw.run_generator(w, t["plugin"], str(w.path("out")), str(w.path("td")), files, env,
                                fault={"on": "reread", "path_suffix": os.path.basename(target), "alt": str(alt)}, root=str(w.base))
        fired = any(e["ev"] == "fault" and e.get("kind") == "reread_changed" for e in res_["events"])
        probes["gate_invocations"] += 1
        if not fired:
            probes["reread_not_reached"] += 1  # one read per file: nothing to judge
        else:
            probes["reread_changed"] += 1
            ran = [e for e in res_["events"] if e["ev"] == "plugin_code_ran"]
            if res_["rc"] == 0:
                viol.append({"sig": "gate:exit-0:changed-after-validation", "msg": f"plugin {t['plugin']}: the model file was read twice and had become schema-invalid in between; the command exited 0"})
            if ran:
                viol.append({"sig": "gate:plugin-ran:changed-after-validation", "msg": f"plugin {t['plugin']}: the model file was read twice and had become schema-invalid in between; plugin code ran ({ran[0].get('file')}:{ran[0].get('func')}) on content that was never validated"})
    finally:
        w.destroy()
    return _result(t, viol, probes, evlog=["reread", t["plugin"], t["position"], [v["sig"] for v in viol]])


# --------------------------------------------------------------------------------------------
# history runs (loader clauses in-process, gate for corrupted files)
# --------------------------------------------------------------------------------------------

def _probes() -> Dict[str, int]:
    return {k: 0 for k in ["loads", "readbacks", "merges", "merge_files", "compares", "node_compares", "equal_pairs_judged", "unequal_pairs_judged",
                           "annotation_only_pair", "alias_compared", "flip_kept_valid", "fault_schema_invalid", "fault_not_json", "gate_invocations",
                           "gate_prepopulated", "second_file_bad", "violation_class_fired", "edits_applied", "edits_with_rare_kinds", "load_rejected_valid",
                           "plugin_probe_unavailable", "reloads_same_objects", "first_file_bad", "default_model_bad", "truncation_points", "cli_merge_runs", "cli_merge_repeated_path", "multi_violation_docs", "merged_vs_first_compares", "model_path_symlink_or_dotdot", "model_path_odd_names", "violation_next_to_deep_nesting", "cross_class_compares", "twin_nodes_built", "merge_with_duplicates", "merge_with_empty_section", "merge_same_object_twice", "unreadable_enoent", "unreadable_eio", "unreadable_directory", "reread_not_reached", "reread_changed", "metadata_first_file"]}


def _result(t: Dict[str, Any], viol: List[Dict[str, str]], probes: Dict[str, int], skipped: Optional[str] = None, evlog: Any = None) -> Dict[str, Any]:
    return {"run_seed": t["run_seed"], "kind": t["kind"], "violations": viol, "harness": None, "probes": probes, "skipped": skipped,
            "digest": core.digest([t["kind"], evlog]), "evlog": evlog}


def _load(docs: List[Dict[str, Any]], reuse: bool = False) -> Any:
    """reuse=True hands the caller's own parsed objects to the loader (as generator/__main__ does);
    otherwise a fresh parse of the same text."""
    gm = G["gm"]
    return gm.create_lsp_model(list(docs) if reuse else [json.loads(json.dumps(d)) for d in docs])


def _compare_models(loads: List[Tuple[Dict[str, Any], Any]], r: random.Random, probes: Dict[str, int], viol: List[Dict[str, str]]) -> None:
    """The newest load against a seeded sample of the earlier ones."""
    if len(loads) < 2:
        return
    dj, mj = loads[-1]
    # always the immediate predecessor (documents one edit apart), a seeded sample of older ones, and itself
    older = list(range(len(loads) - 2))
    for i in [len(loads) - 2] + r.sample(older, min(2, len(older))) + [len(loads) - 1]:
        di, mi = loads[i]
        probes["compares"] += 1
        try:
            eq = mi == mj
            ne = mi != mj
            eq2 = mj == mi
        except Exception as e:
            viol.append({"sig": f"compare-raised:{norm_exc(e)}", "msg": f"comparing two loaded models raised {core.fmt_exc(e)}"})
            return
        if eq != eq2 or eq == ne:
            viol.append({"sig": "compare-inconsistent", "msg": f"a==b is {eq}, b==a is {eq2}, a!=b is {ne}"})
        same_doc = norm_doc(di) == norm_doc(dj)
        s_i, s_j = schema.strip_annotations(di), schema.strip_annotations(dj)
        if same_doc:
            probes["equal_pairs_judged"] += 1
            if not eq:
                viol.append({"sig": "equal-documents-compare-unequal", "msg": "two loads of the same document compare unequal"})
        elif s_i != s_j:
            probes["unequal_pairs_judged"] += 1
            if eq:
                d = first_diff(s_i, s_j) or "?"
                viol.append({"sig": f"different-documents-compare-equal:{path_class(d)}", "msg": f"models of structurally different documents compare equal; documents differ at {d}"})
        else:
            probes["annotation_only_pair"] += 1  # not judged: the statement says "structurally different"
        # node level: same section, same index; plus one cross-class pair
        for sec in models.SECTIONS:
            a, b = getattr(mi, sec), getattr(mj, sec)
            if a and b:
                x, y = a[r.randrange(len(a))], b[r.randrange(len(b))]
                probes["node_compares"] += 1
                if sec == "typeAliases":
                    probes["alias_compared"] += 1
                try:
                    (x == y), (x != y), (x == mj.metaData), (x == 1), (x == None)  # noqa: E711
                    for inner_a, inner_b in zip(_inner_nodes(x)[:4], _inner_nodes(y)[:4]):
                        inner_a == inner_b
                        inner_a != inner_b
                        inner_a == x
                except Exception as e:
                    viol.append({"sig": f"compare-raised:{norm_exc(e)}", "msg": f"comparing two {type(x).__name__} nodes raised {core.fmt_exc(e)}"})
                    return


def _class_matrix(m: Any, r: random.Random, probes: Dict[str, int], viol: List[Dict[str, str]]) -> None:
    """One node per node class of a loaded model (plus a few foreign values), all ordered pairs:
    comparing never raises, == is symmetric, != is its negation."""
    attrs = G["attrs"]
    per_class: Dict[str, Any] = {}
    stack = [m]
    seen = 0
    while stack and seen < 4000:
        x = stack.pop()
        seen += 1
        if attrs.has(type(x)):
            nm = type(x).__name__
            if nm not in per_class or r.random() < 0.05:
                per_class[nm] = x
            for a in attrs.fields(type(x)):
                v = getattr(x, a.name)
                stack.extend(v if isinstance(v, list) else [v])
    nodes = list(per_class.values()) + [None, {}, {"kind": "base", "name": "string"}, "string", 0, [], ()]
    # twins: a node of ANOTHER class built from the same content (e.g. ReferenceMapKeyType vs
    # ReferenceType of the same name, BaseType vs EnumValueType vs BaseMapKeyType, OrType vs AndType):
    # the pairing in which duck-typed or one-sided comparisons go wrong
    gm = G["gm"]
    classes = [c for c in vars(gm).values() if isinstance(c, type) and attrs.has(c)]
    twins: List[Tuple[Any, Any]] = []
    for a in list(per_class.values()):
        if type(a).__name__ == "LSPModel":
            continue
        content = readback(a)
        if not isinstance(content, dict) or len(repr(content)) > 4000:
            continue  # twins only of small nodes: cost is |classes| deep copies per node
        for c in classes:
            if c is type(a) or len(twins) > 40:
                continue
            for variant in (content, {**content, "kind": getattr(c, "__name__", "")[:0] or content.get("kind")}):
                try:
                    twins.append((a, c(**copy.deepcopy(variant))))
                    probes["twin_nodes_built"] += 1
                    break
                except Exception:
                    pass
    for a, b in twins:
        probes["cross_class_compares"] += 1
        try:
            ab, ba, nab, nba = (a == b), (b == a), (a != b), (b != a)
        except Exception as e:
            viol.append({"sig": f"compare-raised:{norm_exc(e)}", "msg": f"comparing a {type(a).__name__} with a {type(b).__name__} of the same content raised {core.fmt_exc(e)}"})
            return
        if bool(ab) != bool(ba) or bool(ab) == bool(nab) or bool(ba) == bool(nba):
            names = sorted([type(a).__name__, type(b).__name__])
            viol.append({"sig": f"compare-inconsistent:{names[0]}-{names[1]}",
                         "msg": f"{type(a).__name__} vs {type(b).__name__} built from the same content {str(readback(a))[:80]}: a==b is {ab}, b==a is {ba}, a!=b is {nab}, b!=a is {nba}"})
            return
    for i, a in enumerate(nodes):
        for b in nodes[i:]:
            if not (attrs.has(type(a)) or attrs.has(type(b))):
                continue
            probes["cross_class_compares"] += 1
            try:
                ab, ba, nab = (a == b), (b == a), (a != b)
            except Exception as e:
                viol.append({"sig": f"compare-raised:{norm_exc(e)}", "msg": f"comparing a {type(a).__name__} with a {type(b).__name__} raised {core.fmt_exc(e)}"})
                return
            if bool(ab) != bool(ba) or bool(ab) == bool(nab):
                viol.append({"sig": "compare-inconsistent:" + "-".join(sorted([type(a).__name__, type(b).__name__])),
                             "msg": f"{type(a).__name__} vs {type(b).__name__}: a==b is {ab}, b==a is {ba}, a!=b is {nab}"})
                return


def _inner_nodes(x: Any, out: Optional[List[Any]] = None, depth: int = 0) -> List[Any]:
    """Typed nodes below x, found by walking attrs fields (not through the model's own helpers)."""
    attrs = G["attrs"]
    out = [] if out is None else out
    if depth > 6 or len(out) > 12:
        return out
    if attrs.has(type(x)):
        for a in attrs.fields(type(x)):
            v = getattr(x, a.name)
            for c in (v if isinstance(v, list) else [v]):
                if attrs.has(type(c)):
                    out.append(c)
                    _inner_nodes(c, out, depth + 1)
    return out


def run_history(t: Dict[str, Any]) -> Dict[str, Any]:
    init()
    ref: schema.Ref = G["ref"]
    r = core.rng(t["run_seed"], "exec")
    probes = _probes()
    viol: List[Dict[str, str]] = []
    evlog: List[Any] = []
    b = t["base"]
    if b["base"] == "full":
        doc = copy.deepcopy(G["base"])
    elif b["base"] == "synth":
        doc = schema.synth_doc(loadable=True)
    else:
        doc = models.random_submodel(G["base"], random.Random(b["sub_seed"]), b.get("lo", 1), b.get("hi", 5))
    loads: List[Tuple[Dict[str, Any], Any]] = []
    w: Optional[gw.World] = None

    def load_and_check(d: Dict[str, Any], tag: str) -> bool:
        """Returns False when the (schema-valid) document was rejected."""
        probes["loads"] += 1
        try:
            m = _load([d])
        except Exception as e:
            probes["load_rejected_valid"] += 1
            viol.append({"sig": f"load-rejected:{norm_exc(e)}", "msg": f"{tag}: schema-valid document rejected by create_lsp_model: {core.fmt_exc(e)[:300]}"})
            return False
        probes["readbacks"] += 1
        diff = first_diff(norm_doc(d), readback(m))
        if diff:
            viol.append({"sig": f"readback-differs:{path_class(diff)}", "msg": f"{tag}: loaded model read back differs from the document at {diff}"})
        loads.append((copy.deepcopy(d), m))
        _compare_models(loads, r, probes, viol)
        if len(loads) % 3 == 1:
            _class_matrix(m, r, probes, viol)
        return True

    try:
        load_and_check(doc, "initial")
        for oi, op in enumerate(t["ops"]):
            kind = op[0]
            if kind == "EDIT":
                er = random.Random(op[1])
                d2 = copy.deepcopy(doc)
                lit = op[2] > 0
                name = er.choice(schema.STRUCTURAL_EDITS)(d2, er, lit)
                if not ref.is_valid(d2):
                    evlog.append(["EDIT-invalid", name])  # generator bug guard: never judged
                    continue
                probes["edits_applied"] += 1
                ok = load_and_check(d2, f"op {oi} EDIT {name}")
                evlog.append(["EDIT", name, ok])
                if ok:
                    doc = d2
                else:
                    probes["edits_with_rare_kinds"] += 1  # keep the previous document so the history goes on
            elif kind == "ANNOT":
                d2 = copy.deepcopy(doc)
                name = schema.annotate_only(d2, random.Random(op[1]), ref)
                if ref.is_valid(d2) and load_and_check(d2, f"op {oi} {name}"):
                    doc = d2
                evlog.append(["ANNOT", name])
            elif kind == "RELOAD":
                # two loads of the very same parsed object
                probes["reloads_same_objects"] += 1
                obj = copy.deepcopy(doc)
                try:
                    ma, mb = _load([obj], reuse=True), _load([obj], reuse=True)
                    dd = first_diff(norm_doc(doc), readback(mb))
                    if dd:
                        viol.append({"sig": f"second-load-differs:{path_class(dd)}", "msg": f"op {oi}: second load of the same parsed document differs: {dd}"})
                    elif not (ma == mb):
                        viol.append({"sig": "equal-documents-compare-unequal", "msg": f"op {oi}: two loads of the same parsed document compare unequal"})
                except Exception as e:
                    viol.append({"sig": f"reload-raised:{norm_exc(e)}", "msg": f"op {oi}: {core.fmt_exc(e)[:300]}"})
                load_and_check(doc, f"op {oi} RELOAD")
                evlog.append(["RELOAD"])
            elif kind == "SPLIT":
                sr = random.Random(op[2])
                parts = models.split(doc, sr, op[1])
                if sr.random() < 0.5:
                    for p in parts[1:]:
                        p["metaData"] = {"version": "later-file-" + p["metaData"]["version"]}
                    probes["metadata_first_file"] += 1
                variant = sr.choice(["plain", "plain", "dup", "empty_first", "empty_later", "same_object"])
                if variant == "dup" and len(parts) >= 2:
                    # a later file re-declares something an earlier one has: concatenation keeps both
                    for sec in models.SECTIONS:
                        if parts[0][sec] and sr.random() < 0.6:
                            parts[-1][sec].append(copy.deepcopy(sr.choice(parts[0][sec])))
                    probes["merge_with_duplicates"] += 1
                elif variant == "empty_first":
                    sec = sr.choice(models.SECTIONS)
                    parts[1][sec] = parts[0][sec] + parts[1][sec]
                    parts[0][sec] = []
                    probes["merge_with_empty_section"] += 1
                elif variant == "empty_later":
                    sec = sr.choice(models.SECTIONS)
                    parts[0][sec] = parts[0][sec] + parts[-1][sec]
                    parts[-1][sec] = []
                    probes["merge_with_empty_section"] += 1
                elif variant == "same_object":
                    parts = parts + [parts[0]]  # the same parsed document object twice in the list
                    probes["merge_same_object_twice"] += 1
                if not all(ref.is_valid(p) for p in parts):
                    evlog.append(["SPLIT-invalid"])
                    continue
                probes["merges"] += 1
                probes["merge_files"] += len(parts)
                pristine = copy.deepcopy(parts)
                reuse = sr.random() < 0.6
                try:
                    m = _load(parts, reuse=reuse)
                except Exception as e:
                    viol.append({"sig": f"merge-rejected:{norm_exc(e)}", "msg": f"op {oi}: {len(parts)} schema-valid files rejected: {core.fmt_exc(e)[:300]}"})
                    continue
                want = models.merge_reference(pristine)
                diff = first_diff(norm_doc(want), readback(m))
                if diff:
                    viol.append({"sig": f"merge-differs:{path_class(diff)}", "msg": f"op {oi}: merge of {len(parts)} files is not the in-order concatenation: {diff}"})
                if reuse:
                    # the same parsed documents loaded again (two loads of the same document), and the
                    # first one loaded alone afterwards: neither may be affected by the earlier merge
                    probes["reloads_same_objects"] += 1
                    try:
                        m2 = _load(parts, reuse=True)
                        d2 = first_diff(norm_doc(want), readback(m2))
                        if d2:
                            viol.append({"sig": f"second-merge-differs:{path_class(d2)}", "msg": f"op {oi}: loading the same {len(parts)} parsed documents a second time gives a different model: {d2}"})
                        elif not (m == m2):
                            viol.append({"sig": "equal-documents-compare-unequal", "msg": f"op {oi}: two merged loads of the same documents compare unequal"})
                        m3 = _load(parts[:1], reuse=True)
                        d3 = first_diff(norm_doc(pristine[0]), readback(m3))
                        if d3:
                            viol.append({"sig": f"load-after-merge-differs:{path_class(d3)}", "msg": f"op {oi}: the first document loaded alone after having been merged differs from its text: {d3}"})
                    except Exception as e:
                        viol.append({"sig": f"reload-raised:{norm_exc(e)}", "msg": f"op {oi}: loading the same documents again raised {core.fmt_exc(e)[:300]}"})
                # the merged model must equal a single-file load of the same content
                try:
                    if loads and norm_doc(loads[-1][0]) == norm_doc(want) and not (m == loads[-1][1]):
                        viol.append({"sig": "merge-unequal-to-single-load", "msg": f"op {oi}: merged model compares unequal to the single-file load of the same declarations"})
                except Exception as e:
                    viol.append({"sig": f"compare-raised:{norm_exc(e)}", "msg": f"comparing merged and single models raised {core.fmt_exc(e)}"})
                # a merged model is a model like any other: it must differ from a load of its first file
                # alone (when the other files add anything) and takes part in all later comparisons
                try:
                    m_first = _load(pristine[:1])
                    adds = any(p_[sec] for p_ in pristine[1:] for sec in models.SECTIONS)
                    probes["merged_vs_first_compares"] += 1
                    if adds and (m == m_first or not (m != m_first)):
                        viol.append({"sig": "merged-model-equals-first-file", "msg": f"op {oi}: the model merged from {len(parts)} files compares equal to a load of its first file alone although the other files add declarations"})
                    if not adds and not (m == m_first):
                        viol.append({"sig": "merged-model-differs-from-first-file", "msg": f"op {oi}: later files add nothing, yet the merged model compares unequal to the first file's model"})
                except Exception as e:
                    viol.append({"sig": f"compare-raised:{norm_exc(e)}", "msg": f"comparing merged and first-file models raised {core.fmt_exc(e)}"})
                if not diff:
                    loads.append((copy.deepcopy(norm_doc(want)), m))
                    _compare_models(loads, r, probes, viol)
                evlog.append(["SPLIT", op[1], variant])
            elif kind == "FAULT":
                fr = random.Random(op[2])
                data = models.dumps(doc, fr)
                bad = byte_fault(data, op[1], fr)
                cls, parsed = ref.classify(bad)
                evlog.append(["FAULT", op[1], cls])
                if cls == "valid":
                    probes["flip_kept_valid"] += 1
                    load_and_check(parsed, f"op {oi} FAULT {op[1]} (content still schema-valid)")
                else:
                    probes["fault_not_json" if cls == "not-json" else "fault_schema_invalid"] += 1
                    if b["base"] == "full" and len(bad) > 3_000_000:
                        continue
                    if w is None:
                        w = gw.World(f"c18h-{t['run_seed']}")
                    if op[4]:
                        good = _sub_for_gate(op[2] % 2**40)
                        p0 = w.path("models", f"f{oi}")
                        p0.mkdir(parents=True, exist_ok=True)
                        (p0 / "m0.json").write_bytes(models.dumps(good))
                        (p0 / "m1.json").write_bytes(bad)
                        files = [str(p0 / "m0.json"), str(p0 / "m1.json")]
                        probes["second_file_bad"] += 1
                    else:
                        p0 = w.path("models", f"f{oi}")
                        p0.mkdir(parents=True, exist_ok=True)
                        (p0 / "m0.json").write_bytes(bad)
                        files = [str(p0 / "m0.json")]
                    vs = gate_check(w, op[3], files, fr.randrange(3), op[2], "not JSON" if cls == "not-json" else "schema-invalid", probes)
                    for v in vs:
                        v["sig"] += f":{op[1]}"
                        v["msg"] += f" [storage fault {op[1]}: {str(parsed)[:100]}]"
                    viol.extend(vs)
    finally:
        if w is not None:
            w.destroy()
    # one signature once
    seen = set()
    uniq = []
    for v in viol:
        if v["sig"] not in seen:
            seen.add(v["sig"])
            uniq.append(v)
    return _result(t, uniq, probes, evlog=evlog)


def worker_run(t: Dict[str, Any]) -> Dict[str, Any]:
    try:
        if t["kind"] == "history":
            return run_history(t)
        if t["kind"] == "gate_class":
            return run_gate_class(t)
        if t["kind"] == "directed":
            return run_directed(t)
        if t["kind"] == "truncation":
            return run_truncation(t)
        if t["kind"] == "cli_merge":
            return run_cli_merge(t)
        if t["kind"] == "gate_multi":
            return run_gate_multi(t)
        if t["kind"] == "gate_reread":
            return run_gate_reread(t)
        return run_gate_unreadable(t)
    except core.HarnessError as e:
        return {"run_seed": t.get("run_seed"), "kind": t.get("kind"), "violations": [], "harness": str(e), "probes": {}, "digest": "harness"}
    except Exception:
        import traceback

        return {"run_seed": t.get("run_seed"), "kind": t.get("kind"), "violations": [], "harness": "exception in harness: " + traceback.format_exc()[-1800:], "probes": {}, "digest": "harness"}


# --------------------------------------------------------------------------------------------
# minimise / replay / driver
# --------------------------------------------------------------------------------------------

def _sigs(res: Dict[str, Any]) -> List[str]:
    return sorted({v["sig"] for v in res.get("violations", [])})


def minimise(t: Dict[str, Any], sig: str) -> Tuple[Dict[str, Any], Dict[str, Any], int]:
    tries = [0]

    def fails(c: Dict[str, Any]) -> Optional[Dict[str, Any]]:
        tries[0] += 1
        out = worker_run(c)
        return out if sig in _sigs(out) else None

    res = fails(t)
    if res is None:
        raise core.HarnessError("violation did not reproduce before minimisation")
    if t["kind"] != "history":
        for simpl in ({"prepopulate": 0}, {"position": "single"}):
            c = dict(t, **simpl)
            if c != t:
                out = fails(c)
                if out:
                    t, res = c, out
        return t, res, tries[0]
    best = copy.deepcopy(t)

    def f_ops(sub: List[Any]) -> bool:
        return bool(fails(dict(best, ops=sub)))

    ops = core.ddmin(best["ops"], f_ops, budget=40)
    c = dict(best, ops=ops)
    out = fails(c)
    if out:
        best, res = c, out
    for simpler in ({"base": "synth"}, {"base": "sub", "sub_seed": best["base"].get("sub_seed", 1), "lo": 1, "hi": 1}):
        c = dict(best, base=simpler)
        if c != best:
            out = fails(c)
            if out:
                best, res = c, out
    return best, res, tries[0]


def replay_file(path: str) -> int:
    body = json.loads(open(path).read())
    res = worker_run(body["run"])
    sigs = _sigs(res)
    print(f"[{PROP}] replay {path}: signatures {sigs} digest {res.get('digest')}")
    if res.get("harness"):
        print(f"HARNESS-ERROR: property={PROP} {res['harness']}")
        return core.EXIT_HARNESS
    if body["signature"] in sigs:
        same = res.get("digest") == body.get("digest")
        print(f"  reproduced (event-log digest {'identical' if same else 'DIFFERENT'})")
        for v in res["violations"]:
            if v["sig"] == body["signature"]:
                print("  " + v["msg"][:500])
        print(f"VIOLATION property={PROP} replay={path}")
        return core.EXIT_VIOLATION
    print("  did not reproduce")
    return core.EXIT_OK


TIERS = {
    "quick": {"histories": 700, "det": 40, "budget": 90.0},
    "thorough": {"histories": 20000, "det": 200, "budget": 2400.0},
}


def main(argv: List[str]) -> int:
    import argparse

    ap = argparse.ArgumentParser(prog=f"check {PROP}")
    ap.add_argument("--tier", default=os.environ.get("VERIF_TIER") or "quick", choices=list(TIERS))
    ap.add_argument("--replay")
    ap.add_argument("--runs", type=int)
    ap.add_argument("--budget", type=float)
    ap.add_argument("--no-gate-classes", action="store_true")
    ap.add_argument("--no-selftest", action="store_true")
    a = ap.parse_args(argv)
    if a.replay:
        return replay_file(a.replay)
    tier = a.tier
    cfg = dict(TIERS[tier])
    if a.runs is not None:
        cfg["histories"] = a.runs
    if a.budget:
        cfg["budget"] = a.budget
    seed = core.base_seed(20261003)
    core.cleanup_stale_scratch()
    rep = core.Report(PROP, tier, seed)
    rep.log(f"VERIF_SEED={seed} tier={tier} histories<={cfg['histories']} workers={core.n_workers()} repo={core.repo_root()}")
    try:
        init()
    except Exception as e:
        rep.harness_error(f"cannot load the tree under test: {core.fmt_exc(e)}")
        return rep.finish({"evaluations": 0, "distinct_nontrivial": 0, "rule": "", "samples": []}, [])
    t0 = time.monotonic()
    gate_tasks = [] if a.no_gate_classes else gen_gate_tasks(seed, tier)
    hist_seeds = [core.derive(seed, PROP, "hist", i) for i in range(cfg["histories"])]
    tasks: Dict[int, Dict[str, Any]] = {}

    def gen_enumerated():
        for t in gate_tasks:
            tasks[t["run_seed"]] = t
            yield t

    def gen():
        for s in hist_seeds:
            t = gen_history(s, tier)
            tasks[s] = t
            yield t

    results: List[Dict[str, Any]] = []
    first_fail: Dict[str, Tuple[Dict[str, Any], Dict[str, Any]]] = {}

    def on_result(i: int, res: Dict[str, Any]) -> bool:
        results.append(res)
        if res.get("harness"):
            rep.harness_error(f"run_seed={res.get('run_seed')}: {res['harness'][-700:]}")
            return len(rep.harness_errors) >= 3
        for v in res.get("violations", []):
            first_fail.setdefault(v["sig"], (tasks[res["run_seed"]], res))
        unknown = [s for s in first_fail if rep.kf.match(PROP, s) is None]
        return len(unknown) >= 6

    try:
        # the enumerated part (violation classes, directed probes, truncation sweep, unreadable files)
        # always runs to completion; the wall budget applies to the seeded histories only
        core.run_pool(worker_run, gen_enumerated(), on_result=on_result, per_task_timeout=900.0)
        if len([s_ for s_ in first_fail if rep.kf.match(PROP, s_) is None]) < 6 and len(rep.harness_errors) < 3:
            core.run_pool(worker_run, gen(), on_result=on_result, deadline=time.monotonic() + cfg["budget"], per_task_timeout=900.0)
    except core.HarnessError as e:
        rep.harness_error(str(e))
    ok = [r for r in results if not r.get("harness")]

    det_checked = det_mismatch = 0
    if not a.no_selftest and ok and not rep.harness_errors:
        by_seed = {r["run_seed"]: r for r in ok}
        sample = [s for s in hist_seeds if s in by_seed][: cfg["det"]] + [t["run_seed"] for t in gate_tasks if t["run_seed"] in by_seed][: cfg["det"] // 4]
        try:
            again = core.run_pool(worker_run, [tasks[s] for s in sample], workers=max(2, core.n_workers() // 2), per_task_timeout=900.0)
            for i, r in again:
                det_checked += 1
                if r.get("digest") != by_seed[sample[i]].get("digest"):
                    det_mismatch += 1
                    rep.harness_error(f"determinism: run_seed={sample[i]} digest {by_seed[sample[i]].get('digest')} then {r.get('digest')}", soft=True)
        except core.HarnessError as e:
            rep.harness_error(str(e))

    for sig, (t, res) in sorted(first_fail.items()):
        msg = next(v["msg"] for v in res["violations"] if v["sig"] == sig)
        if rep.kf.match(PROP, sig) is not None:
            rep.add_violation(sig, msg, {})
            continue
        try:
            mt, mres, n = minimise(t, sig)
            rep.log(f"minimised {sig} in {n} executions")
        except core.HarnessError as e:
            rep.harness_error(f"minimiser: {e}")
            mt, mres = t, res
        msg = next((v["msg"] for v in mres["violations"] if v["sig"] == sig), msg)
        replay = {"run_seed": t["run_seed"], "verif_seed": seed, "run": mt, "original_run": t, "digest": mres.get("digest"), "evlog": mres.get("evlog"),
                  "how_to_replay": f"cd /verif && ./check {PROP} --replay <this file>"}
        if rep.add_violation(sig, msg, replay):
            v = rep.violations[-1]
            path = rep.write_replay(v)
            v["replay_path"] = path
            import subprocess

            p = subprocess.run([sys.executable, "-m", "sim.c18", "--replay", str(path)], cwd=str(core.VERIF), capture_output=True, text=True, timeout=1800)
            if p.returncode != core.EXIT_VIOLATION:
                rep.harness_error(f"replay file {path} did not reproduce in a fresh process: rc={p.returncode} {p.stdout[-300:]}", soft=True)

    wall = time.monotonic() - t0
    probes: Dict[str, int] = {}
    kinds: Dict[str, int] = {}
    skipped: Dict[str, int] = {}
    for r in ok:
        kinds[r["kind"]] = kinds.get(r["kind"], 0) + 1
        if r.get("skipped"):
            skipped[r["skipped"][:60]] = skipped.get(r["skipped"][:60], 0) + 1
        for k, v in r.get("probes", {}).items():
            probes[k] = probes.get(k, 0) + v
    judged = [r for r in ok if not r.get("skipped")]
    classes_total = len(G["classes"])
    classes_fired = len({tuple(tasks[r["run_seed"]]["cls"]) for r in judged if r["kind"] == "gate_class" and r["probes"].get("violation_class_fired")
                         and tasks[r["run_seed"]]["position"] != "default"})
    if gate_tasks and classes_fired < classes_total and not rep.harness_errors and not first_fail:
        rep.harness_error(f"only {classes_fired} of {classes_total} violation classes were injected within the budget")
    coverage = {
        "evaluations": len(judged),
        "distinct_nontrivial": len({r["digest"] for r in judged}),
        "rule": "one evaluation = one simulated run: either a file history (edits / annotation edits / splits / byte-level storage faults, a load + read-back + pairwise comparison "
                "after every step, a real CLI invocation under the audit shim for every corrupted file) or one (violation class, plugin, file position) gate invocation. "
                "Every run is non-trivial (at least one edit, fault or violation); distinct = distinct digest of the recorded event log.",
        "samples": [{"task": tasks[r["run_seed"]], "event_log": r.get("evlog")} for r in judged[: 2]] + [{"task": tasks[r["run_seed"]], "event_log": r.get("evlog")} for r in judged if r["kind"] == "history"][:2],
        "runs_per_hour": int(len(judged) / max(wall, 1e-6) * 3600),
        "run_kinds": kinds,
        "violation_classes_total": classes_total,
        "violation_classes_fired": classes_fired,
        "faults_fired": {k: probes.get(k, 0) for k in ["fault_not_json", "fault_schema_invalid", "flip_kept_valid", "second_file_bad", "first_file_bad", "default_model_bad", "truncation_points", "cli_merge_runs", "cli_merge_repeated_path", "multi_violation_docs", "merged_vs_first_compares", "model_path_symlink_or_dotdot", "model_path_odd_names", "violation_next_to_deep_nesting", "cross_class_compares", "twin_nodes_built", "merge_with_duplicates", "merge_with_empty_section", "merge_same_object_twice", "violation_class_fired",
                                                        "unreadable_enoent", "unreadable_eio", "unreadable_directory", "gate_prepopulated"]},
        "probes": probes,
        "skipped": skipped,
        "seeds": {"VERIF_SEED": seed, "first_history_seeds": hist_seeds[:5]},
        "simulated_time": "none: no clock is read; a history is a sequence of file states and process lifetimes",
        "determinism": {"rerun_other_worker_count": det_checked, "mismatches": det_mismatch},
        "real_vs_stub": {"real": ["generator.model (create_lsp_model, every node class and __eq__)", "generator CLI incl. jsonschema gate and all four plugins for gate runs", "lsp.schema.json"],
                         "simulated": ["model file contents over time (edits, splits, torn/flipped/zeroed/duplicated/unreadable files, a file rewritten between two reads of it)", "hash seed, uuid stream, listing order, python -O, locale, clock, machine identity and tools on PATH of gate invocations", "model paths through symlinks, `..` and names with glob/shell/whitespace/unicode characters"],
                         "stub": [], "oracle": "reference validator = same schema with root #/definitions/MetaModel; generic attrs read-back; annotation-stripping structural comparison"},
        "violation_signatures": sorted(first_fail),
    }
    assumptions = [
        "the loader/equality clauses are input-quantified; simulation reaches them only through the documents its edit-and-fault histories produce (sampling)",
        "annotation keys = documentation, since, sinceTags, proposed, deprecated, supportsCustomValues, typeName; documents differing only in those are not judged for inequality",
        "absent and empty extends/mixins are the same model",
    ]
    return rep.finish(coverage, assumptions)


if __name__ == "__main__":
    core.ensure_hashseed0()
    sys.exit(main(sys.argv[1:]))

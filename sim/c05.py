"""C05 — committed packages are exactly what the generator emits for the committed model, checked
as an end-of-run invariant of the C16 world: for sampled environments (hash seed, uuid stream,
listing order) x directory states (empty / scratch copy of the committed package / dirty tree left
by a killed or disk-failed run), run the python and rust plugins from the current tree on the
default model and compare with the committed files.
"""
from __future__ import annotations

import ast
import json
import os
import pathlib
import random
import re
import shutil
import subprocess
import sys
import time
from typing import Any, Dict, List, Optional, Tuple

from . import core, genworld as gw
from .setup import find_rustfmt

PROP = "C05"
STATES = ["empty", "committed_copy", "dirty_after_fault"]
FAULTS = ["kill_before", "torn_kill", "enospc", "torn_eio"]


# --------------------------------------------------------------------------------------------
# comparisons
# --------------------------------------------------------------------------------------------

def _norm_docstrings(tree: ast.AST) -> None:
    """Whitespace inside bare string statements (module/class/function docstrings and the attribute
    docstrings that follow fields) is the one thing the formatter pass changes."""
    for node in ast.walk(tree):
        body = getattr(node, "body", None)
        if isinstance(body, list):
            for st in body:
                if isinstance(st, ast.Expr) and isinstance(st.value, ast.Constant) and isinstance(st.value.value, str):
                    st.value.value = " ".join(st.value.value.split())


def _stmt_name(st: ast.stmt, i: int) -> str:
    if isinstance(st, (ast.ClassDef, ast.FunctionDef, ast.AsyncFunctionDef)):
        return f"{type(st).__name__[:-3].lower()} {st.name}"
    if isinstance(st, ast.Assign):
        return "assign " + ",".join(ast.unparse(t) for t in st.targets)[:60]
    if isinstance(st, ast.AnnAssign):
        return "assign " + ast.unparse(st.target)[:60]
    if isinstance(st, (ast.Import, ast.ImportFrom)):
        return "import " + ast.unparse(st)[:60]
    return f"statement #{i} ({type(st).__name__})"


def py_statements(src: bytes) -> List[Tuple[str, str]]:
    # bytes, not text: the parser then honours a BOM or a PEP 263 coding cookie exactly as the
    # interpreter does (a `# -*- coding: latin-1 -*-` hand edit changes every non-ASCII docstring)
    tree = ast.parse(src)
    _norm_docstrings(tree)
    return [(_stmt_name(st, i), ast.dump(st, annotate_fields=True, include_attributes=False)) for i, st in enumerate(tree.body)]


def compare_python(committed: bytes, generated: bytes) -> Tuple[Optional[Tuple[str, str]], int]:
    """Both directions, per top-level statement.  Returns ((class, message) | None, statements compared)."""
    try:
        a = py_statements(committed)
    except SyntaxError as e:
        return ("committed-not-parseable", f"committed types.py does not parse: {e}"), 0
    try:
        b = py_statements(generated)
    except SyntaxError as e:
        return ("generated-not-parseable", f"generated types.py does not parse: {e}"), 0
    da: Dict[str, List[str]] = {}
    db: Dict[str, List[str]] = {}
    for n, d in a:
        da.setdefault(n, []).append(d)
    for n, d in b:
        db.setdefault(n, []).append(d)
    for n, _ in a:
        if n not in db:
            return ("python:committed-statement-not-generated", f"committed types.py has `{n}` which the generator does not emit"), len(a)
    for n, _ in b:
        if n not in da:
            return ("python:generated-statement-not-committed", f"the generator emits `{n}` which committed types.py lacks"), len(a)
    for n, _ in a:
        if da[n] != db[n]:
            x, y = da[n][0], db[n][0]
            i = next((j for j in range(min(len(x), len(y))) if x[j] != y[j]), min(len(x), len(y)))
            return ("python:statement-differs", f"`{n}` differs: committed …{x[max(0, i - 60):i + 60]}… generated …{y[max(0, i - 60):i + 60]}…"), len(a)
    if [n for n, _ in a] != [n for n, _ in b]:
        i = next(j for j in range(len(a)) if a[j][0] != b[j][0])
        return ("python:statement-order-differs", f"statement order differs at #{i}: committed `{a[i][0]}` generated `{b[i][0]}`"), len(a)
    return None, len(a)


def rust_items(src: bytes) -> int:
    return len(re.findall(rb"(?m)^(pub )?(struct|enum|type|impl|fn|mod|use|const|trait) ", src))


def compare_rust(committed: bytes, generated_path: pathlib.Path, edition: str, rustfmt: str, crate_src: Optional[pathlib.Path] = None) -> Tuple[Optional[Tuple[str, str]], int]:
    # the formatter pass of the build is `cargo fmt` inside the crate: rustfmt resolves its configuration
    # (rustfmt.toml / .rustfmt.toml) by walking up from there.  Feeding the generated text on stdin with
    # the crate's src/ as working directory gives the same resolution and writes nothing into the tree.
    cwd = str(crate_src) if crate_src is not None and crate_src.is_dir() else None
    p = subprocess.run([rustfmt, "--edition", edition], input=generated_path.read_bytes(), capture_output=True, timeout=300, cwd=cwd)
    if p.returncode != 0:
        return ("rust:generated-not-formattable", f"rustfmt failed on the generated lib.rs: {p.stderr.decode('utf-8', 'replace')[-300:]}"), 0
    g = p.stdout
    n = rust_items(committed)
    if g == committed:
        return None, n
    # "byte-identical after rustfmt" is read literally: rustfmt(generated) == committed bytes, the way
    # the build produces the file.  When only the layout of the committed file differs (the same
    # formatter pass applied to it gives the generated text) the violation is named as such.
    layout_only = False
    try:
        q = subprocess.run([rustfmt, "--edition", edition], input=committed, capture_output=True, timeout=300, cwd=cwd)
        layout_only = q.returncode == 0 and q.stdout == g
    except Exception:
        pass
    la, lb = committed.split(b"\n"), g.split(b"\n")
    i = next((j for j in range(min(len(la), len(lb))) if la[j] != lb[j]), min(len(la), len(lb)))
    # name the enclosing item
    item = b"?"
    for j in range(min(i, len(la) - 1), -1, -1):
        m = re.match(rb"^(pub )?(struct|enum|type|impl|fn|mod) ([A-Za-z0-9_]+)", la[j])
        if m:
            item = m.group(3)
            break
    if layout_only:
        return ("rust:committed-layout-differs", f"committed lib.rs is not the formatter's output (only layout differs, e.g. a hand edit of spacing/import order or a formatter configuration change not propagated) at line {i + 1}: committed {la[i][:120] if i < len(la) else b'<eof>'!r} formatter output {lb[i][:120] if i < len(lb) else b'<eof>'!r}"), n
    return ("rust:item-differs", f"lib.rs differs at line {i + 1} (item {item.decode()}): committed {la[i][:120] if i < len(la) else b'<eof>'!r} generated {lb[i][:120] if i < len(lb) else b'<eof>'!r}"), n


# --------------------------------------------------------------------------------------------
# one simulated run
# --------------------------------------------------------------------------------------------

def gen_run(run_seed: int, tier: str, idx: int) -> Dict[str, Any]:
    r = core.rng(run_seed, "ops")
    plugin = ["python", "rust"][idx % 2]
    state = STATES[(idx // 2) % 3]
    env = gw.env_for(run_seed, "final", core.rng(run_seed, "env"), default=(idx < 2))
    fault = None
    if state == "dirty_after_fault":
        fault = {"kind": r.choice(FAULTS), "on": "write", "at": 1, "frac": r.choice([0.0, 0.3, 0.9])}
    return {"run_seed": run_seed, "plugin": plugin, "state": state, "env": env, "fault": fault,
            "fault_env": gw.env_for(run_seed, "fault", core.rng(run_seed, "env2"))}


def execute(run: Dict[str, Any]) -> Dict[str, Any]:
    repo = core.repo_root()
    plugin = run["plugin"]
    w = gw.World(f"c05-{run['run_seed']}")
    viol: List[Dict[str, str]] = []
    evlog: List[Any] = []
    compared = 0
    fired = 0
    try:
        out = w.path("out")
        td = w.path("td")  # empty: the rust plugin only touches tests when <test-dir>/src/main.rs exists
        committed_pkg = repo / "packages" / plugin / "lsprotocol"
        committed_file = committed_pkg / ("types.py" if plugin == "python" else "src/lib.rs")
        if not committed_file.exists():
            return {"run_seed": run["run_seed"], "violations": [{"sig": f"{plugin}:committed-file-missing", "msg": f"{committed_file} does not exist"}],
                    "harness": None, "digest": "x", "compared": 0, "fired": 0, "plugin": plugin, "state": run["state"], "evlog": []}
        committed = committed_file.read_bytes()
        if run["state"] in ("committed_copy", "dirty_after_fault"):
            out.mkdir(parents=True)
            shutil.copytree(committed_pkg, out / "lsprotocol")
        if run["state"] == "dirty_after_fault":
            r0 = gw.run_generator(w, plugin, str(out), str(td), None, run["fault_env"], fault=run["fault"], root=str(out))
            f = [e for e in r0["events"] if e["ev"] == "fault"]
            fired = len(f)
            evlog.append(["FAULTED", r0["rc"], [e.get("kind") for e in f]])
        r1 = gw.run_generator(w, plugin, str(out), str(td), None, run["env"])
        evlog.append(["RUN", r1["rc"]])
        if r1["rc"] != 0:
            last = r1["stderr_tail"].strip().splitlines()[-1][:300] if r1["stderr_tail"].strip() else "no stderr"
            viol.append({"sig": f"{plugin}:generator-failed", "msg": f"`python -m generator --plugin {plugin}` exited {r1['rc']}: {last}"})
        else:
            gen_file = out / "lsprotocol" / ("types.py" if plugin == "python" else "src/lib.rs")
            if not gen_file.exists():
                viol.append({"sig": f"{plugin}:nothing-generated", "msg": f"{gen_file.name} was not written"})
            elif plugin == "python":
                d, compared = compare_python(committed, gen_file.read_bytes())
                if d:
                    viol.append({"sig": d[0], "msg": d[1]})
            else:
                rustfmt = find_rustfmt()
                if rustfmt is None:
                    raise core.HarnessError("rustfmt not found; cannot apply the formatter pass for the rust comparison")
                m = re.search(r'(?m)^edition\s*=\s*"(\d+)"', (committed_pkg / "Cargo.toml").read_text()) if (committed_pkg / "Cargo.toml").exists() else None
                d, compared = compare_rust(committed, gen_file, m.group(1) if m else "2021", rustfmt, committed_pkg / "src")
                if d:
                    viol.append({"sig": d[0], "msg": d[1]})
    finally:
        w.destroy()
    return {"run_seed": run["run_seed"], "violations": viol, "harness": None, "digest": core.digest([plugin, run["state"], run["env"], run["fault"], evlog]),
            "compared": compared, "fired": fired, "plugin": plugin, "state": run["state"], "evlog": evlog}


def worker_run(run: Dict[str, Any]) -> Dict[str, Any]:
    try:
        return execute(run)
    except core.HarnessError as e:
        return {"run_seed": run.get("run_seed"), "violations": [], "harness": str(e), "digest": "harness", "compared": 0, "fired": 0}
    except Exception:
        import traceback

        return {"run_seed": run.get("run_seed"), "violations": [], "harness": "exception in harness: " + traceback.format_exc()[-1500:], "digest": "harness", "compared": 0, "fired": 0}


def replay_file(path: str) -> int:
    body = json.loads(open(path).read())
    res = worker_run(body["run"])
    sigs = sorted({v["sig"] for v in res.get("violations", [])})
    print(f"[{PROP}] replay {path}: signatures {sigs}")
    if res.get("harness"):
        print(f"HARNESS-ERROR: property={PROP} {res['harness']}")
        return core.EXIT_HARNESS
    if body["signature"] in sigs:
        for v in res["violations"]:
            print("  " + v["msg"][:500])
        print(f"VIOLATION property={PROP} replay={path}")
        return core.EXIT_VIOLATION
    print("  did not reproduce")
    return core.EXIT_OK


TIERS = {"quick": {"runs": 48, "budget": 120.0}, "thorough": {"runs": 600, "budget": 1800.0}}


def main(argv: List[str]) -> int:
    import argparse

    ap = argparse.ArgumentParser(prog=f"check {PROP}")
    ap.add_argument("--tier", default=os.environ.get("VERIF_TIER") or "quick", choices=list(TIERS))
    ap.add_argument("--replay")
    ap.add_argument("--runs", type=int)
    a = ap.parse_args(argv)
    if a.replay:
        return replay_file(a.replay)
    tier = a.tier
    cfg = dict(TIERS[tier])
    if a.runs:
        cfg["runs"] = a.runs
    seed = core.base_seed(20261003)
    core.cleanup_stale_scratch()
    rep = core.Report(PROP, tier, seed)
    rep.log(f"VERIF_SEED={seed} tier={tier} runs={cfg['runs']} workers={core.n_workers()} repo={core.repo_root()}")
    t0 = time.monotonic()
    runs = [gen_run(core.derive(seed, PROP, i), tier, i) for i in range(cfg["runs"])]
    by_seed = {r["run_seed"]: r for r in runs}
    results: List[Dict[str, Any]] = []
    first_fail: Dict[str, Tuple[Dict[str, Any], Dict[str, Any]]] = {}

    def on_result(i: int, res: Dict[str, Any]) -> bool:
        results.append(res)
        if res.get("harness"):
            rep.harness_error(f"run_seed={res.get('run_seed')}: {res['harness'][-600:]}")
            return len(rep.harness_errors) >= 3
        for v in res.get("violations", []):
            first_fail.setdefault(v["sig"], (by_seed[res["run_seed"]], res))
        return False

    try:
        core.run_pool(worker_run, runs, on_result=on_result, deadline=t0 + cfg["budget"], per_task_timeout=900.0)
    except core.HarnessError as e:
        rep.harness_error(str(e))
    ok = [r for r in results if not r.get("harness")]
    for sig, (run, res) in sorted(first_fail.items()):
        msg = next(v["msg"] for v in res["violations"] if v["sig"] == sig)
        # minimise: the simplest world that still shows it (empty directory, default environment)
        simple = dict(run, state="empty", fault=None, env={"hashseed": "0", "uuid_seed": 2, "ls_seed": None, "locale": None})
        r2 = worker_run(simple)
        if sig in {v["sig"] for v in r2.get("violations", [])}:
            run, res = simple, r2
            msg = next(v["msg"] for v in res["violations"] if v["sig"] == sig)
        replay = {"run_seed": run["run_seed"], "verif_seed": seed, "run": run, "digest": res.get("digest"),
                  "how_to_replay": f"cd /verif && ./check {PROP} --replay <this file>"}
        n_env = sum(1 for r in ok if sig in {v["sig"] for v in r.get("violations", [])})
        rep.add_violation(sig, f"{msg} [seen in {n_env} of {len(ok)} simulated worlds]", replay)
    wall = time.monotonic() - t0
    states: Dict[str, int] = {}
    for r in ok:
        k = f"{r.get('plugin')}/{r.get('state')}"
        states[k] = states.get(k, 0) + 1
    coverage = {
        "evaluations": len(ok),
        "distinct_nontrivial": len({r["digest"] for r in ok if by_seed[r["run_seed"]]["state"] != "empty" or by_seed[r["run_seed"]]["env"].get("hashseed") != "0"}),
        "rule": "one evaluation = one simulated world (plugin x directory state x environment) in which the generator runs on the default model from the current tree and "
                "its output is compared with the committed file (python: ast.dump per top-level statement, both directions, bare-string statements whitespace-normalised; "
                "rust: rustfmt then bytes). Non-trivial = non-empty initial directory or simulated uuid/hash/listing environment; distinct by digest of (plugin, state, env, fault, event log).",
        "samples": [{"run": by_seed[r["run_seed"]], "event_log": r.get("evlog"), "statements_or_items_compared": r.get("compared")} for r in ok[:3]],
        "statements_compared_python": max([r.get("compared", 0) for r in ok if r.get("plugin") == "python"] or [0]),
        "items_compared_rust": max([r.get("compared", 0) for r in ok if r.get("plugin") == "rust"] or [0]),
        "runs_per_hour": int(len(ok) / max(wall, 1e-6) * 3600),
        "worlds": states,
        "faults_fired": {"earlier_run_killed_or_disk_failed": sum(1 for r in ok if r.get("fired"))},
        "seeds": {"VERIF_SEED": seed},
        "real_vs_stub": {"real": ["generator CLI + python and rust plugins (current tree)", "rustfmt 1.x from PATH (the formatter pass of the build)", "ast"],
                         "simulated": ["hash seed", "uuid4 stream", "directory listing order", "initial directory state incl. a killed / disk-failed earlier run"], "stub": ["ruff format is not installed: replaced by whitespace normalisation of bare string statements, as the property states"]},
        "violation_signatures": sorted(first_fail),
    }
    return rep.finish(coverage, ["rustfmt on PATH formats like the cargo fmt used by the build", "docstring whitespace is the only thing ruff format changes in types.py"])


if __name__ == "__main__":
    core.ensure_hashseed0()
    sys.exit(main(sys.argv[1:]))

"""Child-interpreter seams for the genworld engine.  Loaded through PYTHONPATH as `sitecustomize`
and active only when LSPROTOCOL_VERIF_SIM=1 (otherwise a no-op).  Configuration: JSON file named by
LSPV_CONF.

Seams owned by the simulator inside the generator process:
  * uuid.uuid4            -> seeded stream (the parent can regenerate every value from seed+count)
  * os.scandir/os.listdir -> seeded permutation of directory enumeration order
  * builtins.open/io.open -> write-open counter, torn write / kill / ENOSPC / EIO injection
  * sys.addaudithook      -> log of every file-system mutation and of plugin imports; kill during
                             cleanup's j-th unlink
Nothing here reads a clock or draws from the global PRNG.
"""
import os

if os.environ.get("LSPROTOCOL_VERIF_SIM") == "1" and os.environ.get("LSPV_CONF"):

    def _install():
        import builtins
        import errno
        import io
        import json
        import random
        import sys
        import uuid

        conf = json.load(open(os.environ["LSPV_CONF"]))
        root = conf.get("root")  # only paths under this directory are faulted / permuted
        log_fd = os.open(conf["log"], os.O_WRONLY | os.O_CREAT | os.O_APPEND, 0o644)
        state = {"w": 0, "rm": 0, "uuid": 0, "mk": 0}
        fault = conf.get("fault") or {}

        def log(obj):
            try:
                os.write(log_fd, (json.dumps(obj) + "\n").encode())
            except Exception:
                pass

        def under_root(p):
            try:
                p = os.fspath(p)
            except TypeError:
                return False
            if isinstance(p, bytes):
                p = p.decode("utf-8", "replace")
            return bool(root) and os.path.abspath(p).startswith(root)

        # ---- uuid4 ------------------------------------------------------------------------
        if conf.get("uuid_seed") is not None:
            ur = random.Random(conf["uuid_seed"])

            def uuid4():
                state["uuid"] += 1
                return uuid.UUID(int=ur.getrandbits(128), version=4)

            uuid.uuid4 = uuid4

        # ---- clock: every wall-clock reading is shifted by a simulated offset (skew / jump between runs) ----
        if conf.get("clock_offset"):
            import datetime as _dt
            import time as _time

            off = float(conf["clock_offset"])
            r_time, r_time_ns, r_localtime, r_gmtime, r_strftime, r_ctime = _time.time, _time.time_ns, _time.localtime, _time.gmtime, _time.strftime, _time.ctime
            _time.time = lambda: r_time() + off
            _time.time_ns = lambda: r_time_ns() + int(off * 1e9)
            _time.localtime = lambda secs=None: r_localtime(_time.time() if secs is None else secs)
            _time.gmtime = lambda secs=None: r_gmtime(_time.time() if secs is None else secs)
            _time.strftime = lambda fmt, t=None: r_strftime(fmt, _time.localtime() if t is None else t)
            _time.ctime = lambda secs=None: r_ctime(_time.time() if secs is None else secs)
            real_datetime, real_date = _dt.datetime, _dt.date
            delta = _dt.timedelta(seconds=off)

            class datetime(real_datetime):  # noqa: N801
                @classmethod
                def now(cls, tz=None):
                    return real_datetime.now(tz) + delta

                @classmethod
                def utcnow(cls):
                    return real_datetime.utcnow() + delta

                @classmethod
                def today(cls):
                    return real_datetime.now() + delta

            class date(real_date):  # noqa: N801
                @classmethod
                def today(cls):
                    return (real_datetime.now() + delta).date()

            _dt.datetime, _dt.date = datetime, date
            log({"ev": "clock", "offset": off})

        # ---- machine speed: discrete-event time.  Every reading of a clock advances simulated time by a
        # fixed step (tiny: a fast, idle machine; large: a slow or loaded one); nothing reads the real
        # monotonic clock any more, so anything bounded by elapsed time behaves as a function of the
        # simulated machine and replays exactly.  Sleeping costs simulated, not real, time.
        step = conf.get("clock_step")
        if step:
            import time as _time2

            step = float(step)
            ticks = [0]

            def _adv():
                ticks[0] += 1
                return ticks[0] * step

            m0, p0, c0 = _time2.monotonic(), _time2.perf_counter(), _time2.process_time()
            t0 = _time2.time()  # already shifted by the simulated offset, if any
            _time2.monotonic = lambda: m0 + _adv()
            _time2.perf_counter = lambda: p0 + _adv()
            _time2.process_time = lambda: c0 + _adv()
            _time2.thread_time = lambda: c0 + _adv()
            _time2.monotonic_ns = lambda: int((m0 + _adv()) * 1e9)
            _time2.perf_counter_ns = lambda: int((p0 + _adv()) * 1e9)
            _time2.process_time_ns = lambda: int((c0 + _adv()) * 1e9)
            _time2.time = lambda: t0 + _adv()
            _time2.time_ns = lambda: int((t0 + _adv()) * 1e9)

            def _sleep(secs):
                ticks[0] += int(float(secs) / step) + 1

            _time2.sleep = _sleep
            log({"ev": "clock_step", "step": step})

        # ---- machine identity: cpu count, host name, user (what another machine would answer) -------
        fake = conf.get("fake_machine") or {}
        if fake:
            if "cpu_count" in fake:
                os.cpu_count = lambda: fake["cpu_count"]
                if hasattr(os, "sched_getaffinity"):
                    os.sched_getaffinity = lambda pid=0: set(range(fake["cpu_count"]))
                if hasattr(os, "process_cpu_count"):
                    os.process_cpu_count = lambda: fake["cpu_count"]
                try:
                    import multiprocessing as _mp

                    _mp.cpu_count = lambda: fake["cpu_count"]
                except Exception:
                    pass
            if "hostname" in fake:
                import platform as _pf
                import socket as _so

                _so.gethostname = lambda: fake["hostname"]
                _pf.node = lambda: fake["hostname"]
            if "terminal" in fake:
                import shutil as _sh

                _sh.get_terminal_size = lambda fallback=(80, 24): os.terminal_size(tuple(fake["terminal"]))

        # ---- directory enumeration order --------------------------------------------------------
        if conf.get("ls_seed") is not None:
            real_scandir, real_listdir = os.scandir, os.listdir

            class _Scan:
                def __init__(self, entries):
                    self._it = iter(entries)

                def __iter__(self):
                    return self

                def __next__(self):
                    return next(self._it)

                def close(self):
                    self._it = iter(())

                def __enter__(self):
                    return self

                def __exit__(self, *a):
                    self.close()

            def _perm(path, items, key):
                r = random.Random(f"{conf['ls_seed']}|{os.fspath(path) if path is not None else '.'}")
                items = sorted(items, key=key)
                r.shuffle(items)
                return items

            def scandir(path="."):
                if not under_root(path) and "plugins" not in str(path):
                    return real_scandir(path)
                with real_scandir(path) as it:
                    entries = list(it)
                log({"ev": "scandir", "path": os.fspath(path), "n": len(entries)})
                return _Scan(_perm(path, entries, lambda e: e.name))

            def listdir(path="."):
                names = real_listdir(path)
                if not under_root(path) and "plugins" not in str(path):
                    return names
                return _perm(path, names, lambda n: n)

            os.scandir, os.listdir = scandir, listdir

        # ---- open: count write-opens under root, inject faults -------------------------------------
        real_open = builtins.open

        def _is_write(mode):
            return isinstance(mode, str) and any(c in mode for c in "wax+")

        class _Torn:
            """File proxy: the first write stores only a prefix, then the process dies or the
            write fails (torn write)."""

            def __init__(self, f, how, frac):
                self._f, self._how, self._frac = f, how, frac

            def write(self, data):
                cut = int(len(data) * self._frac)
                self._f.write(data[:cut])
                self._f.flush()
                log({"ev": "fault", "kind": self._how, "path": getattr(self._f, "name", "?"), "kept": cut, "of": len(data)})
                if self._how == "torn_kill":
                    os._exit(137)
                raise OSError(errno.ENOSPC if self._how == "torn_enospc" else errno.EIO, "simulated disk failure during write")

            def __getattr__(self, k):
                return getattr(self._f, k)

            def __enter__(self):
                return self

            def __exit__(self, *a):
                self._f.close()

        def sim_open(file, mode="r", *a, **kw):
            if _is_write(mode) and not isinstance(file, int) and under_root(file):
                state["w"] += 1
                k = state["w"]
                log({"ev": "open_w", "path": os.path.abspath(os.fspath(file)), "k": k})
                if fault.get("at") == k and fault.get("on", "write") == "write":
                    kind = fault["kind"]
                    if kind == "kill_before":
                        log({"ev": "fault", "kind": kind, "k": k})
                        os._exit(137)
                    if kind in ("enospc", "eio"):
                        log({"ev": "fault", "kind": kind, "k": k})
                        raise OSError(errno.ENOSPC if kind == "enospc" else errno.EIO, "simulated disk failure at open", os.fspath(file))
                    if kind in ("torn_kill", "torn_enospc", "torn_eio"):
                        return _Torn(real_open(file, mode, *a, **kw), kind, fault.get("frac", 0.5))
            return real_open(file, mode, *a, **kw)

        builtins.open = sim_open
        io.open = sim_open

        # ---- audit hook: mutation log, plugin imports, kill during cleanup -------------------------
        W = os.O_WRONLY | os.O_RDWR | os.O_CREAT | os.O_TRUNC | os.O_APPEND

        def hook(event, args):
            if event == "open":
                path, mode, flags = args
                if isinstance(path, int):
                    return
                if fault.get("on") == "reread" and str(path).endswith(fault.get("path_suffix", "\0")) and not (isinstance(mode, str) and any(c in mode for c in "wax+")):
                    # the file changes between two reads of it (another process rewrites it): from the second
                    # open on, the path holds the alternative content
                    state["reads"] = state.get("reads", 0) + 1
                    if state["reads"] == 2:
                        state["quiet"] = True
                        try:
                            with real_open(fault["alt"], "rb") as fa, real_open(os.fspath(path), "wb") as fb:
                                fb.write(fa.read())
                        finally:
                            state["quiet"] = False
                        log({"ev": "fault", "kind": "reread_changed", "path": str(path)})
                if state.get("quiet"):
                    return
                if fault.get("on") == "read" and str(path).endswith(fault.get("path_suffix", "\0")) and not (isinstance(mode, str) and any(c in mode for c in "wax+")):
                    log({"ev": "fault", "kind": "read_" + fault.get("kind", "eio"), "path": str(path)})
                    raise OSError(errno.EIO if fault.get("kind", "eio") == "eio" else errno.ENOENT, "simulated unreadable model file", str(path))
                w = (isinstance(mode, str) and any(c in mode for c in "wax+")) or (
                    mode is None and isinstance(flags, int) and flags & W
                )
                if w and "__pycache__" not in str(path):
                    log({"ev": "audit_open_w", "path": os.path.abspath(os.fspath(path))})
            elif event in ("os.mkdir", "os.rmdir", "os.remove", "os.rename", "os.symlink", "os.link", "os.truncate", "shutil.rmtree", "shutil.copyfile", "shutil.move", "os.chmod", "os.utime"):
                p = args[0]
                if "__pycache__" in str(p):
                    return
                log({"ev": event, "path": os.path.abspath(os.fspath(p)) if not isinstance(p, int) else p})
                if event == "os.remove" and under_root(p):
                    state["rm"] += 1
                    if fault.get("on") == "unlink" and fault.get("at") == state["rm"]:
                        log({"ev": "fault", "kind": "kill_unlink", "k": state["rm"]})
                        os._exit(137)
                if event == "os.mkdir" and under_root(p):
                    state["mk"] += 1
                    if fault.get("on") == "mkdir" and fault.get("at") == state["mk"]:
                        log({"ev": "fault", "kind": fault["kind"], "k": state["mk"]})
                        if fault["kind"] == "kill_before":
                            os._exit(137)
                        raise OSError(errno.ENOSPC, "simulated disk failure at mkdir", os.fspath(p))
            elif event == "import":
                name = args[0]
                if isinstance(name, str) and name.startswith("generator.plugins."):
                    log({"ev": "import", "name": name})

        sys.addaudithook(hook)

        # ---- did any function of a builtin plugin start executing? (sys.monitoring, PEP 669) ----------
        if hasattr(sys, "monitoring"):
            mon = sys.monitoring
            tool = mon.PROFILER_ID
            try:
                mon.use_tool_id(tool, "lsprotocol-verif-plugin-probe")

                def on_start(code, offset):
                    fn = code.co_filename.replace("\\", "/")
                    if "/generator/plugins/" in fn and code.co_flags & 0x1 and not fn.endswith("/plugins/__init__.py"):
                        log({"ev": "plugin_code_ran", "func": code.co_name, "file": fn.rsplit("/generator/plugins/", 1)[1]})
                        mon.set_events(tool, 0)
                        return None
                    return mon.DISABLE

                mon.register_callback(tool, mon.events.PY_START, on_start)
                mon.set_events(tool, mon.events.PY_START)
            except Exception as e:  # tool id taken: not fatal, the probe is simply absent
                log({"ev": "probe_unavailable", "why": repr(e)})

        import atexit

        def _bye():
            log({"ev": "exit", "uuids": state["uuid"], "write_opens": state["w"], "removes": state["rm"]})

        atexit.register(_bye)

    _install()
    del _install

"""Schema-aware tools for C18: reference validator (the shipped schema evaluated with its root set
to #/definitions/MetaModel), a walker that maps document nodes to schema definitions, a generator of
schema-valid evolution edits, and the enumeration of single-edit violation classes.
"""
from __future__ import annotations

import copy
import json
import random
from typing import Any, Dict, Iterator, List, Optional, Tuple

import jsonschema

ANNOTATION_KEYS = ["documentation", "since", "sinceTags", "proposed", "deprecated", "supportsCustomValues", "typeName"]
BASE_NAMES = ["URI", "DocumentUri", "integer", "uinteger", "decimal", "RegExp", "string", "boolean", "null"]
MAPKEY_NAMES = ["URI", "DocumentUri", "string", "integer"]
Path = Tuple[Any, ...]


class Ref:
    """Reference validator: same schema file, root = MetaModel."""

    def __init__(self, schema: Dict[str, Any]):
        self.schema = schema
        # the name pools of the generators follow the schema of the tree under test: a name the schema
        # starts to allow must be generated (a loader that still refuses it is a finding)
        try:
            defs = schema.get("definitions", {})
            bt = [x for x in defs.get("BaseTypes", {}).get("enum", []) if isinstance(x, str)]
            for x in bt:
                if x not in BASE_NAMES:
                    BASE_NAMES.append(x)
            for alt in defs.get("MapKeyType", {}).get("anyOf", []):
                for x in alt.get("properties", {}).get("name", {}).get("enum", []) if isinstance(alt, dict) else []:
                    if isinstance(x, str) and x not in MAPKEY_NAMES:
                        MAPKEY_NAMES.append(x)
        except Exception:
            pass
        self.defs = schema["definitions"]
        rooted = dict(schema)
        rooted["$ref"] = "#/definitions/MetaModel"
        cls = jsonschema.validators.validator_for(schema)
        self.validator = cls(rooted)
        self._sub: Dict[str, Any] = {}
        self._cls = cls

    def classify(self, data: bytes) -> Tuple[str, Any]:
        """('not-json' | 'schema-invalid' | 'valid', parsed-or-message)"""
        try:
            doc = json.loads(data)
        except (ValueError, UnicodeDecodeError, RecursionError) as e:
            return "not-json", str(e)[:120]
        err = next(iter(self.validator.iter_errors(doc)), None)
        if err is not None:
            return "schema-invalid", f"{list(err.absolute_path)[:6]}: {err.message[:120]}"
        return "valid", doc

    def is_valid(self, doc: Any) -> bool:
        return next(iter(self.validator.iter_errors(doc)), None) is None

    def valid_against(self, node: Any, defname: str) -> bool:
        v = self._sub.get(defname)
        if v is None:
            s = dict(self.schema)
            s["$ref"] = f"#/definitions/{defname}"
            v = self._sub[defname] = self._cls(s)
        return next(iter(v.iter_errors(node)), None) is None

    # ---- walking a valid document along the schema -----------------------------------------------
    def walk(self, doc: Any) -> Iterator[Tuple[Path, str, Any]]:
        """Yield (path, definition name, node) for every object node of a schema-valid document."""
        yield from self._walk(doc, {"$ref": "#/definitions/MetaModel"}, ())

    def _matches(self, alt: Dict[str, Any], node: Any) -> bool:
        tgt = alt
        if "$ref" in alt:
            tgt = self.defs[alt["$ref"].rsplit("/", 1)[1]]
        const = tgt.get("properties", {}).get("kind", {}).get("const") if isinstance(tgt, dict) else None
        if const is not None:
            return isinstance(node, dict) and node.get("kind") == const
        if tgt.get("type") == "array":
            return isinstance(node, list)
        s = dict(self.schema)
        s.update(alt)
        return next(iter(self._cls(s).iter_errors(node)), None) is None

    def _walk(self, node: Any, sub: Dict[str, Any], path: Path) -> Iterator[Tuple[Path, str, Any]]:
        name = None
        while "$ref" in sub:
            name = sub["$ref"].rsplit("/", 1)[1]
            sub = self.defs[name]
        if "anyOf" in sub:
            for alt in sub["anyOf"]:
                if self._matches(alt, node):
                    yield from self._walk(node, alt, path)
                    return
            return
        if isinstance(node, dict):
            if name:
                yield path, name, node
            props = sub.get("properties", {})
            for k, v in node.items():
                if k in props:
                    yield from self._walk(v, props[k], path + (k,))
        elif isinstance(node, list):
            items = sub.get("items")
            if isinstance(items, dict):
                for i, v in enumerate(node):
                    yield from self._walk(v, items, path + (i,))


def get_at(doc: Any, path: Path) -> Any:
    for p in path:
        doc = doc[p]
    return doc


# --------------------------------------------------------------------------------------------
# random schema-valid type expressions
# --------------------------------------------------------------------------------------------

def rand_type(r: random.Random, names: List[str], depth: int = 0, allow_literals: bool = True, rare: float = 0.04) -> Dict[str, Any]:
    kinds = ["base", "reference", "reference"]
    if depth < 3:
        kinds += ["array", "map", "or", "and", "tuple", "literal", "stringLiteral"]
    x = r.random()
    if allow_literals and x < rare:
        return {"kind": "integerLiteral", "value": r.choice([0, 1, 7, -3])}
    if allow_literals and x < 2 * rare:
        return {"kind": "booleanLiteral", "value": r.random() < 0.5}
    k = r.choice(kinds)
    if k == "base":
        return {"kind": "base", "name": r.choice(BASE_NAMES)}
    if k == "reference":
        return {"kind": "reference", "name": r.choice(names) if names else "LSPAny"}
    if k == "array":
        return {"kind": "array", "element": rand_type(r, names, depth + 1, allow_literals, rare)}
    if k == "map":
        key = {"kind": "base", "name": r.choice(MAPKEY_NAMES)} if r.random() < 0.7 else {"kind": "reference", "name": r.choice(names) if names else "DocumentUri"}
        return {"kind": "map", "key": key, "value": rand_type(r, names, depth + 1, allow_literals, rare)}
    if k in ("or", "and", "tuple"):
        return {"kind": k, "items": [rand_type(r, names, depth + 1, allow_literals, rare) for _ in range(r.randint(0 if k != "or" else 1, 3))]}
    if k == "literal":
        val: Dict[str, Any] = {"properties": [rand_property(r, names, depth + 1, allow_literals, rare) for _ in range(r.randint(0, 3))]}
        if allow_literals and r.random() < rare:
            val[r.choice(["documentation", "since", "deprecated"])] = "annotated literal"
        return {"kind": "literal", "value": val}
    return {"kind": "stringLiteral", "value": r.choice(["create", "rename", "", "snippet", "x y"])}


def rand_annotations(r: random.Random, d: Dict[str, Any], p: float = 0.3) -> None:
    if r.random() < p:
        d["documentation"] = r.choice(["Doc.", "Multi\nline\n\ndoc with `code` and unicode é→", "", "@since 3.17.0"])
    if r.random() < p / 2:
        d["since"] = r.choice(["3.16.0", "3.17.0", "3.18.0 proposed"])
    if r.random() < p / 3:
        d["sinceTags"] = r.choice([["3.17.0"], ["3.16.0", "3.17.0"], []])
    if r.random() < p / 2:
        d["proposed"] = r.random() < 0.7
    if r.random() < p / 3:
        d["deprecated"] = "Use something else."


def rand_property(r: random.Random, names: List[str], depth: int = 0, allow_literals: bool = True, rare: float = 0.04) -> Dict[str, Any]:
    p: Dict[str, Any] = {"name": r.choice(["alpha", "beta", "kind", "uri", "range", "from", "class", "x_y", "résumé"]) + str(r.randrange(100)),
                         "type": rand_type(r, names, depth, allow_literals, rare)}
    if r.random() < 0.4:
        p["optional"] = r.random() < 0.8
    rand_annotations(r, p, 0.25)
    return p


def decl_names(doc: Dict[str, Any]) -> List[str]:
    return [d["name"] for s in ("structures", "enumerations", "typeAliases") for d in doc[s]]


# --------------------------------------------------------------------------------------------
# evolution edits (schema-valid by construction; the harness re-validates each result)
# --------------------------------------------------------------------------------------------

def _fresh(r: random.Random, prefix: str) -> str:
    return f"{prefix}{r.randrange(10**6):06d}"


def e_add_structure(d, r, lit):
    names = decl_names(d)
    s = {"name": _fresh(r, "EvoStruct"), "properties": [rand_property(r, names, 0, lit) for _ in range(r.randint(0, 5))]}
    if r.random() < 0.4:
        s["extends"] = [{"kind": "reference", "name": r.choice(names)} for _ in range(r.randint(0, 2))] if names else []
    if r.random() < 0.3:
        s["mixins"] = [{"kind": "reference", "name": r.choice(names)} for _ in range(r.randint(0, 2))] if names else []
    rand_annotations(r, s)
    d["structures"].insert(r.randint(0, len(d["structures"])), s)
    return "add_structure"


def e_add_enum(d, r, lit):
    kind = r.choice(["string", "integer", "uinteger"])
    vals = []
    for i in range(r.randint(0, 4)):
        v: Dict[str, Any] = {"name": f"V{i}", "value": (f"v{i}" if kind == "string" else (i - 1 if kind == "integer" else i))}
        if lit and kind != "string" and r.random() < 0.05:
            v["value"] = i + 0.5  # schema: number
        rand_annotations(r, v, 0.2)
        vals.append(v)
    e = {"name": _fresh(r, "EvoEnum"), "type": {"kind": "base", "name": kind}, "values": vals}
    if r.random() < 0.3:
        e["supportsCustomValues"] = r.random() < 0.7
    rand_annotations(r, e)
    d["enumerations"].insert(r.randint(0, len(d["enumerations"])), e)
    return "add_enum"


def e_add_alias(d, r, lit):
    a = {"name": _fresh(r, "EvoAlias"), "type": rand_type(r, decl_names(d), 0, lit)}
    rand_annotations(r, a)
    d["typeAliases"].insert(r.randint(0, len(d["typeAliases"])), a)
    return "add_alias"


def e_add_request(d, r, lit):
    names = decl_names(d)
    q: Dict[str, Any] = {"method": "evo/" + _fresh(r, "req"), "messageDirection": r.choice(["clientToServer", "serverToClient", "both"]),
                         "result": rand_type(r, names, 1, lit)}
    if r.random() < 0.7:
        q["params"] = rand_type(r, names, 1, lit) if r.random() < 0.9 else [rand_type(r, names, 2, False) for _ in range(r.randint(0, 2))]
    for k in ("partialResult", "errorData", "registrationOptions"):
        if r.random() < 0.25:
            q[k] = rand_type(r, names, 1, lit)
    if r.random() < 0.3:
        q["registrationMethod"] = "evo/registration"
    if r.random() < 0.5:
        q["typeName"] = _fresh(r, "Evo") + "Request"
    rand_annotations(r, q)
    d["requests"].insert(r.randint(0, len(d["requests"])), q)
    return "add_request"


def e_add_notification(d, r, lit):
    names = decl_names(d)
    q: Dict[str, Any] = {"method": "evo/" + _fresh(r, "ntf"), "messageDirection": r.choice(["clientToServer", "serverToClient", "both"])}
    if r.random() < 0.7:
        q["params"] = rand_type(r, names, 1, lit)
    if r.random() < 0.25:
        q["registrationOptions"] = rand_type(r, names, 1, lit)
    if r.random() < 0.3:
        q["registrationMethod"] = "evo/registration"
    if r.random() < 0.5:
        q["typeName"] = _fresh(r, "Evo") + "Notification"
    rand_annotations(r, q)
    d["notifications"].insert(r.randint(0, len(d["notifications"])), q)
    return "add_notification"


def e_remove_decl(d, r, lit):
    sec = r.choice(["requests", "notifications", "structures", "enumerations", "typeAliases"])
    if d[sec]:
        d[sec].pop(r.randrange(len(d[sec])))
    return f"remove:{sec}"


def e_reorder(d, r, lit):
    sec = r.choice(["requests", "notifications", "structures", "enumerations", "typeAliases"])
    if len(d[sec]) >= 2:
        i, j = r.sample(range(len(d[sec])), 2)
        d[sec][i], d[sec][j] = d[sec][j], d[sec][i]
    return f"reorder:{sec}"


def e_edit_property(d, r, lit):
    ss = [s for s in d["structures"]]
    if not ss:
        return e_add_structure(d, r, lit)
    s = r.choice(ss)
    x = r.random()
    if x < 0.3 or not s["properties"]:
        s["properties"].insert(r.randint(0, len(s["properties"])), rand_property(r, decl_names(d), 0, lit))
        return "property:add"
    i = r.randrange(len(s["properties"]))
    if x < 0.45:
        s["properties"].pop(i)
        return "property:remove"
    if x < 0.6 and len(s["properties"]) >= 2:
        j = r.randrange(len(s["properties"]))
        s["properties"][i], s["properties"][j] = s["properties"][j], s["properties"][i]
        return "property:reorder"
    p = s["properties"][i]
    if x < 0.75:
        if "optional" in p and r.random() < 0.5:
            del p["optional"]
        elif "optional" not in p and r.random() < 0.4:
            # written out vs omitted: the same meaning to a plugin, yet another document (and the loader
            # keeps the difference: False vs None), so the loads must not compare equal
            p["optional"] = False
        else:
            p["optional"] = not p.get("optional", False)
        return "property:toggle_optional"
    if x < 0.9:
        p["type"] = rand_type(r, decl_names(d), 0, lit)
        return "property:retype"
    p["name"] = p["name"] + "X"
    return "property:rename"


def e_edit_message(d, r, lit):
    sec = r.choice(["requests", "notifications"])
    if not d[sec]:
        return e_add_request(d, r, lit)
    q = r.choice(d[sec])
    keys = ["params", "registrationOptions"] + (["result", "partialResult", "errorData"] if sec == "requests" else [])
    k = r.choice(keys + ["messageDirection", "registrationMethod", "method"])
    if k == "messageDirection":
        q[k] = r.choice([x for x in ["clientToServer", "serverToClient", "both"] if x != q[k]])
    elif k == "registrationMethod":
        if k in q and r.random() < 0.5:
            del q[k]
        else:
            q[k] = "evo/" + _fresh(r, "reg")
    elif k == "method":
        q[k] = q[k] + "/evo"
    elif k in q and k != "result" and r.random() < 0.4:
        del q[k]
    else:
        q[k] = rand_type(r, decl_names(d), 1, lit)
    return f"message:{k}"


def e_edit_enum(d, r, lit):
    if not d["enumerations"]:
        return e_add_enum(d, r, lit)
    e = r.choice(d["enumerations"])
    x = r.random()
    kind = e["type"]["name"]
    if x < 0.4:
        nm = _fresh(r, "Evo")
        e["values"].insert(r.randint(0, len(e["values"])), {"name": nm, "value": nm.lower() if kind == "string" else r.randrange(1000, 2000)})
        return "enum:add_value"
    if x < 0.6 and e["values"]:
        e["values"].pop(r.randrange(len(e["values"])))
        return "enum:remove_value"
    if x < 0.8 and e["values"]:
        v = r.choice(e["values"])
        v["value"] = (str(v["value"]) + "x") if kind == "string" else (int(v["value"]) + 1 if isinstance(v["value"], int) else 3)
        return "enum:change_value"
    if len(e["values"]) >= 2:
        e["values"].reverse()
    return "enum:reverse"


def e_edit_alias(d, r, lit):
    if not d["typeAliases"]:
        return e_add_alias(d, r, lit)
    a = r.choice(d["typeAliases"])
    a["type"] = rand_type(r, decl_names(d), 0, lit)
    return "alias:retype"


def e_edit_extends(d, r, lit):
    if not d["structures"]:
        return e_add_structure(d, r, lit)
    s = r.choice(d["structures"])
    k = r.choice(["extends", "mixins"])
    names = [x["name"] for x in d["structures"]]
    x = r.random()
    if x < 0.3 and k in s:
        if s[k] and r.random() < 0.6:
            s[k].pop(r.randrange(len(s[k])))
        else:
            del s[k]
    elif x < 0.45:
        s[k] = []
    else:
        s.setdefault(k, []).append({"kind": "reference", "name": r.choice(names)})
    return f"structure:{k}"


TYPE_DEFS = ("BaseType", "ReferenceType", "ArrayType", "MapType", "AndType", "OrType", "TupleType", "StructureLiteralType", "StringLiteralType")
_REF_FOR_WALK: List[Any] = []


def e_mutate_type_node(d, r, lit):
    """Minimal structural mutation of ONE type node somewhere in the document (a single field of a
    single node changes): what a forgotten field in a hand-written __eq__ would miss."""
    ref = _REF_FOR_WALK[0] if _REF_FOR_WALK else None
    if ref is None:
        return e_edit_alias(d, r, lit)
    nodes = [(p, n, x) for p, n, x in ref.walk(d) if n in TYPE_DEFS or n in ("EnumerationType", "EnumerationEntry", "Enumeration", "Structure")]
    if not nodes:
        return e_add_alias(d, r, lit)
    for _ in range(8):
        p, n, x = r.choice(nodes)
        if n == "BaseType":
            x["name"] = r.choice([b for b in BASE_NAMES if b != x["name"]])
            return "mutate:base.name"
        if n == "ReferenceType":
            x["name"] = x["name"] + "X"
            return "mutate:reference.name"
        if n == "StringLiteralType":
            x["value"] = x["value"] + "x"
            return "mutate:stringLiteral.value"
        if n == "ArrayType":
            x["element"] = {"kind": "array", "element": x["element"]} if r.random() < 0.5 else {"kind": "base", "name": "string"}
            return "mutate:array.element"
        if n == "MapType":
            if r.random() < 0.6:
                k = x["key"]
                if k.get("kind") == "base":
                    k["name"] = r.choice([b for b in MAPKEY_NAMES if b != k["name"]])
                else:
                    x["key"] = {"kind": "base", "name": "string"}
                return "mutate:map.key"
            x["value"] = {"kind": "base", "name": "boolean"} if x["value"] != {"kind": "base", "name": "boolean"} else {"kind": "base", "name": "string"}
            return "mutate:map.value"
        if n in ("AndType", "OrType", "TupleType"):
            it = x["items"]
            if len(it) >= 2 and it[0] != it[-1] and r.random() < 0.6:
                it[0], it[-1] = it[-1], it[0]
                return f"mutate:{n}.items-order"
            if it and r.random() < 0.5:
                it.pop(r.randrange(len(it)))
                return f"mutate:{n}.items-remove"
            it.append({"kind": "base", "name": "null"})
            return f"mutate:{n}.items-add"
        if n == "StructureLiteralType":
            props = x["value"]["properties"]
            if props and r.random() < 0.5:
                props.reverse()
                if len(props) >= 2 and props[0] != props[-1]:
                    return "mutate:literal.properties-order"
            props.append({"name": "zz" + str(r.randrange(100)), "type": {"kind": "base", "name": "string"}})
            return "mutate:literal.properties-add"
        if n == "Enumeration":
            # value type flip: only the type changes (integer <-> uinteger), or type and look-alike
            # values together ("1" <-> 1)
            kind = x["type"]["name"]
            if kind in ("integer", "uinteger") and r.random() < 0.6:
                x["type"]["name"] = "uinteger" if kind == "integer" else "integer"
                return "mutate:enum.type int<->uint"
            if kind == "string" and x["values"] and all(isinstance(v["value"], str) and v["value"].isdigit() for v in x["values"]):
                x["type"]["name"] = "integer"
                for v in x["values"]:
                    v["value"] = int(v["value"])
                return "mutate:enum.type string->integer"
            if kind != "string" and x["values"] and all(isinstance(v["value"], int) for v in x["values"]):
                x["type"]["name"] = "string"
                for v in x["values"]:
                    v["value"] = str(v["value"])
                return "mutate:enum.type integer->string"
            if kind == "string" and not x["values"]:
                x["type"]["name"] = "integer"
                return "mutate:enum.type of empty enum"
        if n == "Structure" and (x.get("extends") or x.get("mixins")):
            # move one entry between extends and mixins
            src = "extends" if x.get("extends") else "mixins"
            dst = "mixins" if src == "extends" else "extends"
            x.setdefault(dst, []).append(x[src].pop())
            return f"mutate:structure.{src}->{dst}"
    return e_edit_alias(d, r, lit)


def e_big_enum_value(d, r, lit):
    if not d["enumerations"]:
        return e_add_enum(d, r, lit)
    ints = [e for e in d["enumerations"] if e["type"]["name"] != "string"]
    if not ints:
        return e_add_enum(d, r, lit)
    e = r.choice(ints)
    pool = [2**31 - 1, 2**40, 0, 1, 2**53 + 1, 2**63, 2**64 + 1, 10**30 + 1, 9007199254740993, 123456789012345678901234567890]
    v = r.choice(pool)
    if e["type"]["name"] == "integer" and r.random() < 0.5:
        v = -v
    e["values"].append({"name": _fresh(r, "Big"), "value": v})
    return "enum:big_value"


def e_params_array(d, r, lit):
    sec = r.choice(["requests", "notifications"])
    if not d[sec]:
        return e_add_request(d, r, lit)
    q = r.choice(d[sec])
    q["params"] = [rand_type(r, decl_names(d), 2, False) for _ in range(r.randint(0, 3))]
    return f"message:{sec}.params-array"


def e_tail_edit(d, r, lit):
    """Drop the LAST element of some list, or append a copy of its last element: the pair of documents
    where one list is a prefix of the other (what a zip()-based comparison truncates)."""
    lists: List[List[Any]] = []

    def walk(x: Any) -> None:
        if isinstance(x, dict):
            for v in x.values():
                walk(v)
        elif isinstance(x, list):
            if x and all(isinstance(v, dict) for v in x):
                lists.append(x)
            for v in x:
                walk(v)

    walk(d)
    if not lists:
        return e_add_structure(d, r, lit)
    lst = r.choice(lists)
    if r.random() < 0.5 and len(lst) >= 1:
        lst.pop()
        return "tail:drop-last"
    lst.append(copy.deepcopy(lst[-1]))
    return "tail:append-copy-of-last"


def e_extremes(d, r, lit):
    """Sizes and characters at the edges: deep nesting, long lists, long / odd strings."""
    kind = r.choice(["deep", "deep_or", "wide", "longdoc", "oddname", "oddstrings"])
    names = decl_names(d)
    if kind == "deep":
        t: Dict[str, Any] = {"kind": "base", "name": "string"}
        # arrays and maps only: jsonschema validates a nested or/and/tuple node under each of those three
        # alternatives in turn, i.e. exponentially in the nesting depth (random types stay at depth <= 3)
        for i in range(r.choice([12, 40, 80])):
            t = {"kind": "array", "element": t} if i % 4 else {"kind": "map", "key": {"kind": "base", "name": "string"}, "value": t}
        d["typeAliases"].append({"name": _fresh(r, "EvoDeep"), "type": t})
    elif kind == "deep_or":
        # or/and/tuple nested 4-6 deep (jsonschema is exponential here, so no deeper)
        t2: Dict[str, Any] = {"kind": "reference", "name": r.choice(names) if names else "X"}
        for i in range(r.choice([4, 5, 6])):
            t2 = {"kind": r.choice(["or", "or", "and", "tuple"]), "items": [{"kind": "base", "name": r.choice(BASE_NAMES)}, t2] if i % 2 else [t2, {"kind": "stringLiteral", "value": f"lvl{i}"}]}
        d["typeAliases"].append({"name": _fresh(r, "EvoDeepOr"), "type": t2})
    elif kind == "wide":
        n = r.choice([300, 1500])
        d["structures"].append({"name": _fresh(r, "EvoWide"), "properties": [{"name": f"p{i}", "type": {"kind": "base", "name": "string"}, **({"optional": True} if i % 7 == 0 else {})} for i in range(n)]})
    elif kind == "longdoc":
        tgt = r.choice(d["structures"] or d["enumerations"] or [d["metaData"]])
        if tgt is not d["metaData"]:
            tgt["documentation"] = ("long documentation " * r.choice([50, 5000])) + "end"
    elif kind == "oddname":
        nm = r.choice(["__class__", "self", "kind", "name", "a.b", "with space", "日本語", "𐐀𐐁", "", "0", "None", "id_"])
        d["structures"].append({"name": _fresh(r, "EvoOdd"), "properties": [{"name": nm, "type": {"kind": "base", "name": "string"}}, {"name": nm + "2", "type": {"kind": "reference", "name": r.choice(names) if names else "X"}}]})
    else:
        odd = r.choice(["", " ", "\u0000", "\ud800", "line\nbreak", "tab\t", "\u2028", "\\", '"', "'", "null", "true", "1", "{}",
                        # not in Unicode normal form C / compatibility characters / case and width variants
                        "Cafe\u0301", "\u212b", "\u2126", "\uf900", "\ufb01", "\uff21", "\u00c5", "ß", "İ", "a\u0308\u0323", " padded ", "UPPER", "Title Case"])
        d["typeAliases"].append({"name": _fresh(r, "EvoStr"), "type": {"kind": "stringLiteral", "value": odd}, "documentation": odd, "since": odd})
        d["enumerations"].append({"name": _fresh(r, "EvoStrEnum"), "type": {"kind": "base", "name": "string"}, "values": [{"name": "Odd", "value": odd}, {"name": odd or "Empty", "value": "plain"}]})
    return f"extremes:{kind}"


def e_metadata(d, r, lit):
    d["metaData"]["version"] = d["metaData"]["version"] + ".1"
    return "metadata:version"


STRUCTURAL_EDITS = [e_add_structure, e_add_enum, e_add_alias, e_add_request, e_add_notification, e_remove_decl, e_reorder,
                    e_edit_property, e_edit_property, e_edit_message, e_edit_message, e_edit_enum, e_edit_alias, e_edit_extends, e_metadata,
                    e_mutate_type_node, e_mutate_type_node, e_mutate_type_node, e_mutate_type_node, e_big_enum_value, e_params_array, e_tail_edit, e_tail_edit, e_extremes, e_extremes]


def annotate_only(d: Dict[str, Any], r: random.Random, ref: Ref) -> str:
    """Annotation-only edit at a seeded node (must not affect ==)."""
    nodes = [(p, n, x) for p, n, x in ref.walk(d) if n in ("Request", "Notification", "Structure", "Property", "Enumeration", "EnumerationEntry", "TypeAlias")]
    if not nodes:
        return "annot:none"
    p, n, x = r.choice(nodes)
    keys = ["documentation", "since", "sinceTags", "proposed", "deprecated"]
    if n == "Enumeration":
        keys.append("supportsCustomValues")
    if n in ("Request", "Notification"):
        keys.append("typeName")
    k = r.choice(keys)
    if k in x and r.random() < 0.4:
        del x[k]
    elif k == "sinceTags":
        x[k] = ["3.%d.0" % r.randrange(20)]
    elif k in ("proposed", "supportsCustomValues"):
        x[k] = not x.get(k, False)
    else:
        x[k] = f"annot {r.randrange(1000)}"
    return f"annot:{n}.{k}"


def strip_annotations(x: Any) -> Any:
    """S(d): the structural content of a document (annotation keys removed at every depth, empty
    extends/mixins dropped because absent and [] load to the same model)."""
    if isinstance(x, dict):
        out = {}
        for k, v in x.items():
            if k in ANNOTATION_KEYS and not (k == "documentation" and False):
                continue
            if k in ("extends", "mixins") and v == []:
                continue
            out[k] = strip_annotations(v)
        return out
    if isinstance(x, list):
        return [strip_annotations(v) for v in x]
    return x


# --------------------------------------------------------------------------------------------
# single-edit schema violations
# --------------------------------------------------------------------------------------------

def violation_classes(ref: Ref) -> List[Tuple[str, str, str]]:
    """(definition, keyword, detail) for every way one edit can violate the schema."""
    out: List[Tuple[str, str, str]] = []
    for name, d in sorted(ref.defs.items()):
        if d.get("type") == "object" or "properties" in d:
            for k in d.get("required", []):
                out.append((name, "required", k))
            if d.get("additionalProperties") is False:
                out.append((name, "additionalProperties", "simUndeclared"))
            for k, pv in sorted(d.get("properties", {}).items()):
                out.append((name, "type", k))
                tgt = pv
                if "$ref" in pv:
                    tgt = ref.defs[pv["$ref"].rsplit("/", 1)[1]]
                if "const" in tgt or "enum" in tgt:
                    out.append((name, "enum", k))
    # MapKeyType's inline alternative
    out.append(("MapType", "enum", "key.name"))
    return out


def _wrong_type_value(v: Any) -> Any:
    if isinstance(v, bool):
        return "true"
    if isinstance(v, str):
        return 7
    if isinstance(v, (int, float)):
        return {"n": v}
    if isinstance(v, list):
        return {"0": "list became object"}
    if isinstance(v, dict):
        return [v]
    return 1


def apply_violation(doc: Dict[str, Any], ref: Ref, cls: Tuple[str, str, str], r: random.Random) -> Optional[Tuple[Dict[str, Any], Path]]:
    """Apply one violation of class cls at a seeded node of doc; None if doc has no such node."""
    name, kw, key = cls
    nodes = [(p, x) for p, n, x in ref.walk(doc) if n == name]
    if kw in ("required", "type", "enum") and key != "key.name":
        nodes = [(p, x) for p, x in nodes if key in x]
    if name == "MapType" and key == "key.name":
        nodes = [(p, x) for p, x in nodes if x.get("key", {}).get("kind") == "base"]
    if not nodes:
        return None
    p, _ = r.choice(nodes)
    d = copy.deepcopy(doc)
    x = get_at(d, p)
    if kw == "required":
        del x[key]
    elif kw == "additionalProperties":
        # the undeclared key's spelling matters to code that special-cases some names
        x[r.choice([key, key, "$schema", "$id", "$comment", "$ref", "comment", "_comment", "version", "id_", "id", "kind", "__class__", "description", "title", ""])] = r.choice([True, "x", 1, None, "./lsp.schema.json", {}])
    elif kw == "type":
        if r.random() < 0.35:
            x[key] = None  # null is a wrong JSON type for every declared property
        elif key == "params":
            x[key] = "not a type"
        elif name == "EnumerationEntry" and key == "value":
            x[key] = [x[key]]
        else:
            x[key] = _wrong_type_value(x[key])
    elif kw == "enum":
        if key == "key.name":
            x["key"]["name"] = "decimal"
        elif isinstance(x[key], str):
            x[key] = x[key] + "Sim"
        else:
            return None
    return d, p


def synth_doc(loadable: bool = True) -> Dict[str, Any]:
    """A small schema-valid document with at least one node of every definition, so every violation
    class has a node to hit even when the sampled model lacks one.  loadable=True leaves out the
    constructs the typed loader rejects on the pinned tree (integer/boolean literal kinds, annotated
    structure-literal values), so that a broken gate is not masked by a loader error."""
    d = synth_doc_for(None)
    if loadable:
        def strip(x: Any) -> Any:
            if isinstance(x, dict):
                if x.get("kind") == "literal":
                    x["value"] = {"properties": x["value"]["properties"]}
                for k, v in list(x.items()):
                    if k == "items" and isinstance(v, list):
                        x[k] = [i for i in v if not (isinstance(i, dict) and i.get("kind") in ("integerLiteral", "booleanLiteral"))]
                for v in x.values():
                    strip(v)
            elif isinstance(x, list):
                for v in x:
                    strip(v)
            return x
        strip(d)
    return d


def synth_doc_for(cls: Any) -> Dict[str, Any]:
    t_all = {"kind": "or", "items": [
        {"kind": "base", "name": "string"}, {"kind": "reference", "name": "S"}, {"kind": "array", "element": {"kind": "base", "name": "integer"}},
        {"kind": "map", "key": {"kind": "base", "name": "string"}, "value": {"kind": "reference", "name": "S"}},
        {"kind": "map", "key": {"kind": "reference", "name": "A"}, "value": {"kind": "base", "name": "null"}},
        {"kind": "and", "items": [{"kind": "reference", "name": "S"}]}, {"kind": "tuple", "items": [{"kind": "base", "name": "uinteger"}]},
        {"kind": "literal", "value": {"properties": [{"name": "p", "type": {"kind": "base", "name": "boolean"}, "optional": True}],
                                      "documentation": "d", "since": "1", "sinceTags": ["1"], "proposed": True, "deprecated": "x"}},
        {"kind": "stringLiteral", "value": "x"}, {"kind": "integerLiteral", "value": 1}, {"kind": "booleanLiteral", "value": True}]}
    return {
        "metaData": {"version": "3.17.0"},
        "requests": [{"method": "a/b", "typeName": "ABRequest", "messageDirection": "both", "params": {"kind": "reference", "name": "S"}, "result": t_all,
                      "partialResult": {"kind": "base", "name": "null"}, "errorData": {"kind": "base", "name": "string"}, "registrationOptions": {"kind": "reference", "name": "S"},
                      "registrationMethod": "a/reg", "documentation": "d", "since": "1", "sinceTags": ["1"], "proposed": True, "deprecated": "x"}],
        "notifications": [{"method": "n/m", "typeName": "NMNotification", "messageDirection": "clientToServer", "params": {"kind": "reference", "name": "S"},
                           "registrationOptions": {"kind": "reference", "name": "S"}, "registrationMethod": "n/reg", "documentation": "d", "since": "1", "sinceTags": ["1"], "proposed": False, "deprecated": "x"}],
        "structures": [{"name": "S", "properties": [{"name": "p", "type": t_all, "optional": True, "documentation": "d", "since": "1", "sinceTags": [], "proposed": True, "deprecated": "y"}],
                        "extends": [{"kind": "reference", "name": "S"}], "mixins": [{"kind": "reference", "name": "S"}], "documentation": "d", "since": "1", "sinceTags": ["1"], "proposed": True, "deprecated": "z"}],
        "enumerations": [{"name": "E", "type": {"kind": "base", "name": "string"}, "values": [{"name": "V", "value": "v", "documentation": "d", "since": "1", "sinceTags": ["1"], "proposed": True, "deprecated": "w"}],
                          "supportsCustomValues": True, "documentation": "d", "since": "1", "sinceTags": ["1"], "proposed": True, "deprecated": "q"}],
        "typeAliases": [{"name": "A", "type": {"kind": "base", "name": "string"}, "documentation": "d", "since": "1", "sinceTags": ["1"], "proposed": True, "deprecated": "q"}],
    }

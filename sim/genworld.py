"""genworld engine: the real generator CLI in child interpreters whose environment the simulator
owns (hash seed, uuid4 stream, directory enumeration order, write/unlink/mkdir faults, initial
directory tree), against scratch trees under /dev/shm.
"""
from __future__ import annotations

import hashlib
import json
import os
import pathlib
import random
import shutil
import subprocess
import sys
import uuid
from typing import Any, Dict, Iterable, List, Optional, Tuple

from . import core

SHIM_DIR = str(pathlib.Path(__file__).resolve().parent / "shim")
PLUGINS = ["python", "rust", "dotnet", "testdata"]
DOTNET_PKG = "lsprotocol"


class World:
    """One scratch area owned by one simulated run."""

    def __init__(self, tag: str):
        # The path the generator sees is part of the simulated world (path strings get hashed, sorted,
        # resolved): it is a function of the tag (= run seed) alone so that a replay sees the very same
        # strings.  Ownership (for cleanup after a killed check) is recorded inside the directory.  Only
        # when another LIVE process holds the same name does the world fall back to a private name.
        sb = core.scratch_base()
        cand = sb / f"lspv-w-{tag}"
        self.base = None  # type: ignore[assignment]
        for _ in range(3):
            try:
                cand.mkdir()
                (cand / ".owner").write_text(str(os.getpid()))
                self.base = cand
                break
            except FileExistsError:
                if core.scratch_owner_alive(cand):
                    break
                shutil.rmtree(cand, ignore_errors=True)
        if self.base is None:
            self.base = sb / f"lspv-{os.getpid()}-{tag}"
            if self.base.exists():
                shutil.rmtree(self.base)
            self.base.mkdir(parents=True)
        self.n_invocations = 0

    def path(self, *parts: str) -> pathlib.Path:
        return self.base.joinpath(*parts)

    def write_models(self, name: str, docs: List[bytes]) -> List[str]:
        d = self.path("models", name)
        d.mkdir(parents=True, exist_ok=True)
        out = []
        for i, b in enumerate(docs):
            p = d / f"m{i}.json"
            p.write_bytes(b)
            out.append(str(p))
        return out

    def destroy(self) -> None:
        shutil.rmtree(self.base, ignore_errors=True)


INPROC_DRIVER = """
import json, sys
from generator.__main__ import main, setup_logging
setup_logging()
runs = json.loads(sys.argv[1])
for argv in runs[:-1]:
    try:
        main(argv)
    except BaseException:
        pass  # whether the earlier generation worked is not what is judged
main(runs[-1])
"""

FAKE_TOOLS = ["ruff", "black", "isort", "autopep8", "yapf", "rustfmt", "cargo", "dotnet", "csharpier", "clang-format", "prettier", "git", "node", "npx", "dos2unix", "unix2dos", "gofmt"]


def fake_tools(world: World, seed: int) -> pathlib.Path:
    """A directory of stand-in developer tools for PATH: "another machine has other tools installed".
    Every stand-in answers --version with a version made from the seed, `git` prints a seeded hash, and
    anything else "formats": it appends a seeded marker line to every file (and to every file of
    every directory) named on its command line, and in filter mode passes stdin through plus the
    marker.  The generator of the pinned tree starts no process at all, so none of this ever runs
    unless a change makes the output depend on what happens to be installed."""
    d = world.path(f"faketools-{seed}")
    if d.is_dir():
        return d
    d.mkdir(parents=True)
    for name in FAKE_TOOLS:
        sh = d / name
        sh.write_text(f"""#!/bin/sh
for a in "$@"; do case "$a" in --version|-V|-v|version) echo "{name} 9.{seed % 97}.{seed}"; exit 0;; esac; done
if [ "{name}" = git ]; then echo "{seed:08x}{seed * 7919 % 2**32:08x}"; exit 0; fi
n=0
for a in "$@"; do
  if [ -f "$a" ]; then printf '\n// formatted by {name} {seed}\n' >> "$a"; n=1; fi
  if [ -d "$a" ]; then for f in "$a"/* "$a"/*/* "$a"/*/*/*; do if [ -f "$f" ]; then printf '\n// formatted by {name} {seed}\n' >> "$f"; fi; done; n=1; fi
done
if [ $n = 0 ]; then cat; echo "// formatted by {name} {seed}"; fi
exit 0
""")
        sh.chmod(0o755)
    return d


def env_for(run_seed: int, label: str, rnd: random.Random, default: bool = False) -> Dict[str, Any]:
    """A simulated environment for one generator invocation."""
    if default:
        # clean room: hash seed 0, real listing order, UTF-8; the uuid stream is seeded with a constant
        # (not the real uuid4) so that even a run whose output wrongly depends on the ids replays exactly
        return {"hashseed": "0", "uuid_seed": 1, "ls_seed": None, "locale": None, "clock_step": 1e-6}
    hs = rnd.choice(["0", str(rnd.randrange(1, 2**32 - 1)), str(rnd.randrange(1, 2**32 - 1)), "random"])
    if hs == "random":
        # "random" is what users get by default; for replayability the simulator draws the value
        hs = str(core.derive(run_seed, label, "hashseed") % (2**32 - 1) + 1)
    return {
        "hashseed": hs,
        "uuid_seed": core.derive(run_seed, label, "uuid"),
        "ls_seed": core.derive(run_seed, label, "ls") if rnd.random() < 0.8 else None,
        # "another machine": ASCII default text encoding (no UTF-8 mode, no C-locale coercion)
        "locale": "C" if rnd.random() < 0.25 else None,
        # clock skew / jump between runs (seconds): another day, another year, the past
        "clock_offset": rnd.choice([0, 0, 86400 * 3, 86400 * 400, -86400 * 30, 3600 * 11]),
        # machine speed: simulated seconds that pass per reading of any clock (discrete-event time)
        "clock_step": rnd.choice([1e-6, 1e-6, 1e-4, 0.05, 0.7]),
        # python -O / -OO (asserts and docstrings stripped), and how the directories are spelled
        "optimize": rnd.choice([0, 0, 0, 1, 2]),
        # another machine / another user
        "machine": rnd.choice([None, None, {"cpu_count": rnd.choice([1, 2, 64]), "hostname": rnd.choice(["build-agent-17", "localhost", "DESKTOP-ÄÖ"]),
                                              "terminal": rnd.choice([[20, 5], [80, 24], [400, 100]]), "user": rnd.choice(["ci", "root", "jürgen"]),
                                              "home": rnd.choice(["/nonexistent", "/home/ci", "/"]), "columns": rnd.choice(["20", "80", "500"]),
                                              # which developer tools this machine has on PATH (None: whatever is really there)
                                              "tools": rnd.choice([None, rnd.randrange(1, 10**6)])}]),
        "path_style": rnd.choice(["abs", "abs", "rel", "slash", "dotdot"]),
    }


def run_generator(
    world: World,
    plugin: str,
    out_dir: Optional[str],
    test_dir: Optional[str],
    model_files: Optional[List[str]],
    env: Dict[str, Any],
    fault: Optional[Dict[str, Any]] = None,
    timeout: float = 600.0,
    repo: Optional[pathlib.Path] = None,
    root: Optional[str] = None,
) -> Dict[str, Any]:
    """One invocation of `python -m generator` from the tree under test, under the shim."""
    repo = repo or core.repo_root()
    world.n_invocations += 1
    k = world.n_invocations
    log = world.path(f"inv{k}.log")
    conf = world.path(f"inv{k}.conf.json")
    conf.write_text(json.dumps({
        "root": root or str(world.base),
        "log": str(log),
        "uuid_seed": env.get("uuid_seed"),
        "ls_seed": env.get("ls_seed"),
        "clock_offset": env.get("clock_offset") or 0,
        "clock_step": env.get("clock_step"),
        "fake_machine": {k_: v_ for k_, v_ in (env.get("machine") or {}).items() if k_ in ("cpu_count", "hostname", "terminal")},
        "fault": fault,
    }))
    e = {k_: v for k_, v in os.environ.items() if not k_.startswith(("PYTHON", "LSPV", "VERIF"))}
    e.update({
        "PYTHONPATH": os.pathsep.join([SHIM_DIR, str(repo)]),
        "PYTHONHASHSEED": str(env.get("hashseed", "0")),
        "PYTHONDONTWRITEBYTECODE": "1",
        core.GUARD: "1",
        "LSPV_CONF": str(conf),
    })
    if env.get("optimize"):
        e["PYTHONOPTIMIZE"] = str(env["optimize"])
    if env.get("machine"):
        m_ = env["machine"]
        e.update({"USER": m_["user"], "LOGNAME": m_["user"], "USERNAME": m_["user"], "HOME": m_["home"], "COLUMNS": m_["columns"], "LINES": "10",
                  "HOSTNAME": m_["hostname"], "TMPDIR": str(world.base), "CI": "true", "NO_COLOR": "1", "TERM": "dumb"})
    if (env.get("machine") or {}).get("tools"):
        e["PATH"] = str(fake_tools(world, env["machine"]["tools"])) + os.pathsep + e.get("PATH", "/usr/bin:/bin")
    style = env.get("path_style") or "abs"

    def spell(pth: Optional[str]) -> Optional[str]:
        if pth is None or style == "abs":
            return pth
        if style == "rel":
            return os.path.relpath(pth, str(repo))
        if style == "slash":
            return pth.rstrip("/") + "/"
        return os.path.join(os.path.dirname(pth), "..", os.path.basename(os.path.dirname(pth)), os.path.basename(pth))  # a/b -> a/../a/b

    out_dir, test_dir = spell(out_dir), spell(test_dir)
    if env.get("locale") == "C":
        for k_ in [k_ for k_ in e if k_.startswith("LC_") or k_ in ("LANG", "LANGUAGE")]:
            del e[k_]
        e.update({"LC_ALL": "C", "LANG": "C", "PYTHONUTF8": "0", "PYTHONCOERCECLOCALE": "0"})
    cmd = [sys.executable, "-m", "generator", "--plugin", plugin]
    if model_files is not None:
        cmd += ["--model"] + list(model_files)
    if out_dir is not None:
        cmd += ["--output-dir", out_dir]
    if test_dir is not None:
        cmd += ["--test-dir", test_dir]
    if env.get("inproc_before"):
        # the same interpreter has generated something else before (a long-lived build script calling
        # generator.__main__.main several times): "number of earlier runs" inside one process
        cmd = [sys.executable, "-c", INPROC_DRIVER, json.dumps(list(env["inproc_before"]) + [cmd[3:]])]
    try:
        p = subprocess.run(cmd, cwd=str(repo), env=e, capture_output=True, timeout=timeout, stdin=subprocess.DEVNULL)
        rc, so, se = p.returncode, p.stdout, p.stderr
    except subprocess.TimeoutExpired:
        raise core.HarnessError(f"generator invocation exceeded {timeout}s: {' '.join(cmd)}")
    events: List[Dict[str, Any]] = []
    if log.exists():
        for line in log.read_text().splitlines():
            try:
                events.append(json.loads(line))
            except ValueError:
                pass
    return {
        "rc": rc,
        "stderr_tail": se.decode("utf-8", "replace")[-1500:],
        "stdout_tail": so.decode("utf-8", "replace")[-400:],
        "events": events,
        "cmd": cmd[2:],
        "env": env,
        "fault": fault,
    }


def uuid_stream(seed: int, count: int) -> List[str]:
    r = random.Random(seed)
    return [str(uuid.UUID(int=r.getrandbits(128), version=4)) for _ in range(count)]


# --------------------------------------------------------------------------------------------
# trees
# --------------------------------------------------------------------------------------------

def snapshot(root: pathlib.Path) -> Dict[str, str]:
    """relative path -> sha256 of content ('<dir>' for directories)."""
    out: Dict[str, str] = {}
    if not root.exists():
        return out
    for dp, dns, fns in os.walk(root):
        dns.sort()
        rel = os.path.relpath(dp, root)
        if rel != ".":
            out[rel + "/"] = "<dir>"
        for fn in sorted(fns):
            p = os.path.join(dp, fn)
            with open(p, "rb") as f:
                out[os.path.normpath(os.path.join(rel, fn))] = hashlib.sha256(f.read()).hexdigest()
    return out


def owned_files(plugin: str, out_dir: pathlib.Path) -> Dict[str, bytes]:
    """The files a plugin owns under its --output-dir (relative path -> bytes)."""
    res: Dict[str, bytes] = {}
    if plugin == "python":
        p = out_dir / "lsprotocol" / "types.py"
        if p.exists():
            res["lsprotocol/types.py"] = p.read_bytes()
    elif plugin == "rust":
        p = out_dir / "lsprotocol" / "src" / "lib.rs"
        if p.exists():
            res["lsprotocol/src/lib.rs"] = p.read_bytes()
    elif plugin == "dotnet":
        d = out_dir / DOTNET_PKG
        if d.is_dir():
            for f in sorted(d.iterdir()):
                if f.is_file() and f.name.endswith(".cs"):
                    res[f"{DOTNET_PKG}/{f.name}"] = f.read_bytes()
    elif plugin == "testdata":
        if out_dir.is_dir():
            for f in sorted(out_dir.iterdir()):
                if f.is_file() and f.name.endswith(".json"):
                    res[f.name] = f.read_bytes()
    return res


def tree_digest(files: Dict[str, bytes]) -> str:
    h = hashlib.sha256()
    for k in sorted(files):
        h.update(k.encode())
        h.update(b"\0")
        h.update(hashlib.sha256(files[k]).digest())
    return h.hexdigest()[:24]


def diff_trees(ref: Dict[str, bytes], got: Dict[str, bytes]) -> Optional[Tuple[str, str]]:
    """First difference between two owned-file maps as (class, message), or None."""
    missing = sorted(set(ref) - set(got))
    extra = sorted(set(got) - set(ref))
    if missing:
        return "owned-file-missing", f"missing {len(missing)} owned file(s), first: {missing[0]}"
    if extra:
        return "stale-owned-file-survives", f"{len(extra)} owned file(s) that the reference run does not produce, first: {extra[0]}"
    for k in sorted(ref):
        if ref[k] != got[k]:
            a, b = ref[k], got[k]
            i = next((j for j in range(min(len(a), len(b))) if a[j] != b[j]), min(len(a), len(b)))
            line = a[:i].count(b"\n") + 1
            return "output-differs", f"{k} differs at byte {i} (line {line}): ref {a[max(0,i-30):i+30]!r} got {b[max(0,i-30):i+30]!r}"
    return None

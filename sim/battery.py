"""Fixed battery of inputs on which converters are compared (C19).  Whether an input is spec-valid is
irrelevant: only sameness of the outcome across converters / histories / schedules is judged.
Chosen to cross every hand-written hook family of _hooks.py plus the attrs-class factories.

STRUCT: (name, type name in lsprotocol.types, JSON value)
BUILD : (name, python expression over `lsp`) -> object that is unstructured
"""
from __future__ import annotations

R0 = {"start": {"line": 0, "character": 0}, "end": {"line": 0, "character": 5}}
R1 = {"start": {"line": 3, "character": 4}, "end": {"line": 7, "character": 1}}
LOC = {"uri": "file:///a.py", "range": R1}
LOCLINK = {"targetUri": "file:///b.py", "targetRange": R0, "targetSelectionRange": R0, "originSelectionRange": R1}


def _resp(result, id_=1):
    return {"jsonrpc": "2.0", "id": id_, "result": result}


def _req(method, params, id_=1):
    return {"jsonrpc": "2.0", "id": id_, "method": method, "params": params}


def _notif(method, params):
    return {"jsonrpc": "2.0", "method": method, "params": params}


def _caps(**kw):
    return _resp({"capabilities": kw})


STRUCT = [
    # plain classes through the attrs factories
    ("position", "Position", {"line": 1, "character": 2}),
    ("position-neg", "Position", {"line": -1, "character": 0}),
    ("position-big", "Position", {"line": 2**31, "character": 0}),
    ("position-missing", "Position", {"line": 1}),
    ("range", "Range", R1),
    ("location", "Location", LOC),
    ("diagnostic", "Diagnostic", {"range": R0, "message": "m", "severity": 3, "code": "C0114", "source": "lint",
                                  "tags": [1, 2], "relatedInformation": [{"location": LOC, "message": "x"}],
                                  "codeDescription": {"href": "https://x"}, "data": {"k": [1, {"z": None}]}}),
    ("diagnostic-intcode", "Diagnostic", {"range": R0, "message": "m", "code": 12}),
    ("diagnostic-bad-sev", "Diagnostic", {"range": R0, "message": "m", "severity": "high"}),
    ("publish-diags", "PublishDiagnosticsNotification", _notif("textDocument/publishDiagnostics", {
        "uri": "file:///x", "version": 3, "diagnostics": [{"range": R0, "message": "a"}, {"range": R1, "message": "b", "severity": 1}]})),
    # capability provider unions (with / without id, bool, null)
    ("caps-empty", "InitializeResponse", _caps()),
    ("caps-sync-kind", "InitializeResponse", _caps(textDocumentSync=2)),
    ("caps-sync-opts", "InitializeResponse", _caps(textDocumentSync={"openClose": True, "change": 1, "save": {"includeText": True}})),
    ("caps-sync-save-bool", "InitializeResponse", _caps(textDocumentSync={"openClose": False, "save": True})),
    ("caps-notebook-sync", "InitializeResponse", _caps(notebookDocumentSync={"notebookSelector": [{"notebook": "jupyter", "cells": [{"language": "python"}]}], "save": True})),
    ("caps-notebook-sync-id", "InitializeResponse", _caps(notebookDocumentSync={"id": "r1", "notebookSelector": [{"notebook": {"notebookType": "jupyter-notebook", "scheme": "file"}}]})),
    ("caps-notebook-sync-pattern", "InitializeResponse", _caps(notebookDocumentSync={"notebookSelector": [{"notebook": {"pattern": "**/*.ipynb"}}, {"cells": [{"language": "r"}]}]})),
    ("caps-hover-bool", "InitializeResponse", _caps(hoverProvider=True)),
    ("caps-hover-opts", "InitializeResponse", _caps(hoverProvider={"workDoneProgress": True})),
    ("caps-decl-reg", "InitializeResponse", _caps(declarationProvider={"id": "d", "documentSelector": [{"language": "python"}, {"scheme": "file"}, {"pattern": "*.py"}], "workDoneProgress": False})),
    ("caps-decl-null-selector", "InitializeResponse", _caps(declarationProvider={"id": "d", "documentSelector": None})),
    ("caps-decl-opts", "InitializeResponse", _caps(declarationProvider={"workDoneProgress": True})),
    ("caps-definition", "InitializeResponse", _caps(definitionProvider={"workDoneProgress": True}, typeDefinitionProvider={"id": "t", "documentSelector": None},
                                                  implementationProvider=False, referencesProvider=True)),
    ("caps-many-bools", "InitializeResponse", _caps(documentHighlightProvider=True, documentSymbolProvider={"label": "sym"}, codeActionProvider={"codeActionKinds": ["quickfix", "my.custom.kind"], "resolveProvider": True},
                                                  colorProvider={"id": "c", "documentSelector": [{"language": "css"}]}, workspaceSymbolProvider={"resolveProvider": True},
                                                  documentFormattingProvider=True, documentRangeFormattingProvider={"rangesSupport": True}, renameProvider={"prepareProvider": True})),
    ("caps-folding-etc", "InitializeResponse", _caps(foldingRangeProvider={"id": "f", "documentSelector": None}, selectionRangeProvider=True,
                                                   callHierarchyProvider={"id": "ch", "documentSelector": [{"notebook": "*", "language": "python"}]},
                                                   linkedEditingRangeProvider={"workDoneProgress": True}, monikerProvider={"documentSelector": None},
                                                   typeHierarchyProvider=True, inlineValueProvider={"id": "iv", "documentSelector": None}, inlayHintProvider={"resolveProvider": True})),
    ("caps-semantic-tokens", "InitializeResponse", _caps(semanticTokensProvider={"legend": {"tokenTypes": ["namespace", "myType"], "tokenModifiers": ["declaration", "myMod"]}, "full": {"delta": True}, "range": True})),
    ("caps-semantic-tokens-reg", "InitializeResponse", _caps(semanticTokensProvider={"id": "s", "documentSelector": [{"language": "x"}], "legend": {"tokenTypes": [], "tokenModifiers": []}, "full": True})),
    ("caps-diagnostic", "InitializeResponse", _caps(diagnosticProvider={"interFileDependencies": True, "workspaceDiagnostics": False, "identifier": "d"})),
    ("caps-diagnostic-reg", "InitializeResponse", _caps(diagnosticProvider={"id": "x", "documentSelector": None, "interFileDependencies": True, "workspaceDiagnostics": False})),
    ("caps-position-encoding", "InitializeResponse", _caps(positionEncoding="utf-8")),
    ("caps-position-encoding-custom", "InitializeResponse", _caps(positionEncoding="something")),
    ("caps-inline-completion", "InitializeResponse", _caps(inlineCompletionProvider={"workDoneProgress": True})),
    ("caps-workspace", "InitializeResponse", _caps(workspace={"workspaceFolders": {"supported": True, "changeNotifications": "id-1"},
                                                               "fileOperations": {"didCreate": {"filters": [{"scheme": "file", "pattern": {"glob": "**/*.py", "matches": "file", "options": {"ignoreCase": True}}}]}},
                                                               "textDocumentContent": {"id": "tdc", "schemes": ["a"]}})),
    ("caps-experimental", "InitializeResponse", _caps(experimental={"a": [1, 2.5, None, {"b": "c"}]})),
    ("init-result-serverinfo", "InitializeResponse", _resp({"capabilities": {"hoverProvider": False}, "serverInfo": {"name": "s", "version": "1"}}, id_="abc")),
    ("init-response-error", "InitializeResponse", {"jsonrpc": "2.0", "id": 1, "result": None}),
    # initialize request (client capabilities, big nested structure)
    ("init-request", "InitializeRequest", _req("initialize", {
        "processId": 1105947, "rootPath": "/home/u/p", "rootUri": "file:///home/u/p",
        "capabilities": {"workspace": {"applyEdit": True, "workspaceEdit": {"documentChanges": True, "resourceOperations": ["create", "rename", "delete"], "failureHandling": "textOnlyTransactional"},
                                       "symbol": {"dynamicRegistration": True, "symbolKind": {"valueSet": [1, 2, 3, 26]}, "tagSupport": {"valueSet": [1]}},
                                       "semanticTokens": {"refreshSupport": True}},
                         "textDocument": {"publishDiagnostics": {"relatedInformation": True, "tagSupport": {"valueSet": [1, 2]}},
                                          "synchronization": {"dynamicRegistration": True, "willSave": True, "didSave": True},
                                          "completion": {"completionItem": {"snippetSupport": True, "documentationFormat": ["markdown", "plaintext"], "tagSupport": {"valueSet": [1]},
                                                                            "resolveSupport": {"properties": ["documentation"]}, "insertTextModeSupport": {"valueSet": [1, 2]}},
                                                         "completionItemKind": {"valueSet": [1, 2, 25]}, "contextSupport": True},
                                          "semanticTokens": {"requests": {"range": True, "full": {"delta": True}}, "tokenTypes": ["namespace", "custom"], "tokenModifiers": ["declaration"], "formats": ["relative"]},
                                          "foldingRange": {"foldingRangeKind": {"valueSet": ["comment", "custom"]}}},
                         "general": {"positionEncodings": ["utf-16", "utf-8", "weird"], "markdown": {"parser": "marked", "version": "1.1.0"}},
                         "notebookDocument": {"synchronization": {"dynamicRegistration": True, "executionSummarySupport": True}}},
        "initializationOptions": {"anything": [1, "two", {"three": 3.5}]}, "trace": "verbose",
        "workspaceFolders": [{"uri": "file:///home/u/p", "name": "p"}], "clientInfo": {"name": "vscode", "version": "1.0"}, "locale": "en"})),
    ("init-request-null-folders", "InitializeRequest", _req("initialize", {"processId": None, "rootUri": None, "capabilities": {}, "workspaceFolders": None})),
    ("init-request-bad", "InitializeRequest", _req("initialize", {"capabilities": {}})),
    # markup / hover / marked string
    ("hover-markup", "HoverResponse", _resp({"contents": {"kind": "markdown", "value": "**x**"}, "range": R0})),
    ("hover-marked-string", "HoverResponse", _resp({"contents": {"language": "python", "value": "x=1"}})),
    ("hover-string", "HoverResponse", _resp({"contents": "plain"})),
    ("hover-list", "HoverResponse", _resp({"contents": ["a", {"language": "py", "value": "b"}]})),
    ("hover-null", "HoverResponse", _resp(None)),
    # completion: list vs items, label details, text edits, documentation union
    ("completion-list", "CompletionResponse", _resp({"isIncomplete": True, "itemDefaults": {"commitCharacters": ["."], "editRange": R0, "insertTextFormat": 2},
                                                     "items": [{"label": "a", "kind": 3, "documentation": {"kind": "plaintext", "value": "d"}, "textEdit": {"range": R0, "newText": "x"}},
                                                               {"label": "b", "kind": 99, "documentation": "s", "textEdit": {"insert": R0, "replace": R1, "newText": "y"}, "tags": [1],
                                                                "additionalTextEdits": [{"range": R0, "newText": ""}], "command": {"title": "t", "command": "c", "arguments": [1, {"a": None}]}, "data": [1, 2]}]})),
    ("completion-items", "CompletionResponse", _resp([{"label": "x"}, {"label": "y", "labelDetails": {"detail": "d"}, "insertTextMode": 2}])),
    ("completion-null", "CompletionResponse", _resp(None)),
    ("completion-item-range-pair", "CompletionList", {"isIncomplete": False, "itemDefaults": {"editRange": {"insert": R0, "replace": R1}}, "items": []}),
    # locations
    ("definition-location", "DefinitionResponse", _resp(LOC)),
    ("definition-locations", "DefinitionResponse", _resp([LOC, LOC])),
    ("definition-links", "DefinitionResponse", _resp([LOCLINK])),
    ("definition-empty", "DefinitionResponse", _resp([])),
    ("definition-null", "DefinitionResponse", _resp(None)),
    ("declaration-links", "DeclarationResponse", _resp([LOCLINK, LOCLINK])),
    ("references", "ReferencesResponse", _resp([LOC])),
    # symbols
    ("doc-symbols-tree", "DocumentSymbolResponse", _resp([{"name": "C", "kind": 5, "range": R1, "selectionRange": R0, "tags": [1],
                                                           "children": [{"name": "m", "kind": 6, "range": R1, "selectionRange": R0, "detail": "()"}]}])),
    ("doc-symbols-flat", "DocumentSymbolResponse", _resp([{"name": "f", "kind": 12, "location": LOC, "containerName": "mod", "deprecated": True}])),
    ("ws-symbols-info", "WorkspaceSymbolResponse", _resp([{"name": "f", "kind": 12, "location": LOC}])),
    ("ws-symbols-ws", "WorkspaceSymbolResponse", _resp([{"name": "f", "kind": 12, "location": {"uri": "file:///only"}, "data": 7}])),
    ("ws-symbols-null", "WorkspaceSymbolResponse", _resp(None)),
    # code actions / commands
    ("code-actions", "CodeActionResponse", _resp([{"title": "cmd", "command": "do.it", "arguments": [LOC]},
                                                  {"title": "act", "kind": "refactor.extract.custom", "diagnostics": [{"range": R0, "message": "m"}], "isPreferred": True,
                                                   "disabled": {"reason": "r"}, "edit": {"changes": {"file:///a": [{"range": R0, "newText": "n"}]}}, "command": {"title": "t", "command": "c"}}])),
    ("code-action-request", "CodeActionRequest", _req("textDocument/codeAction", {"textDocument": {"uri": "file:///a"}, "range": R0,
                                                      "context": {"diagnostics": [], "only": ["quickfix", "source.organizeImports"], "triggerKind": 1}})),
    # workspace edit: document changes by kind, annotated edits, snippet edits
    ("apply-edit", "ApplyWorkspaceEditRequest", _req("workspace/applyEdit", {"label": "l", "edit": {
        "documentChanges": [{"textDocument": {"uri": "file:///a", "version": 4}, "edits": [{"range": R0, "newText": "x"}, {"range": R1, "newText": "y", "annotationId": "ann"}]},
                            {"kind": "create", "uri": "file:///n", "options": {"overwrite": True}},
                            {"kind": "rename", "oldUri": "file:///n", "newUri": "file:///m", "annotationId": "ann"},
                            {"kind": "delete", "uri": "file:///m", "options": {"recursive": True, "ignoreIfNotExists": False}},
                            {"textDocument": {"uri": "file:///b", "version": None}, "edits": [{"range": R0, "snippet": {"kind": "snippet", "value": "$1"}}]}],
        "changeAnnotations": {"ann": {"label": "L", "needsConfirmation": True}}}})),
    ("rename-response", "RenameResponse", _resp({"changes": {"file:///a": [{"range": R0, "newText": "q"}]}})),
    ("prepare-rename-range", "PrepareRenameResponse", _resp(R0)),
    ("prepare-rename-placeholder", "PrepareRenameResponse", _resp({"range": R0, "placeholder": "p"})),
    ("prepare-rename-default", "PrepareRenameResponse", _resp({"defaultBehavior": True})),
    # inlay hints / inline values / semantic tokens
    ("inlay-hints", "InlayHintResponse", _resp([{"position": {"line": 1, "character": 1}, "label": "s", "kind": 1, "paddingLeft": True},
                                                {"position": {"line": 2, "character": 0}, "label": [{"value": "p", "tooltip": {"kind": "markdown", "value": "t"}, "location": LOC, "command": {"title": "t", "command": "c"}},
                                                                                                    {"value": "q", "tooltip": "tt"}],
                                                 "textEdits": [{"range": R0, "newText": "x"}], "tooltip": "tip", "data": {"a": 1}}])),
    ("inlay-hint-resolve", "InlayHintResolveRequest", _req("inlayHint/resolve", {"position": {"line": 6, "character": 5}, "label": "a label", "kind": 1, "paddingLeft": False, "paddingRight": True})),
    ("inline-values", "InlineValueResponse", _resp([{"range": R0, "text": "t"}, {"range": R0, "variableName": "v", "caseSensitiveLookup": True}, {"range": R0, "expression": "e"}])),
    ("semantic-tokens", "SemanticTokensResponse", _resp({"resultId": "r", "data": [0, 1, 2, 3, 4]})),
    ("semantic-tokens-delta", "SemanticTokensDeltaResponse", _resp({"resultId": "r", "edits": [{"start": 0, "deleteCount": 1, "data": [1, 2]}]})),
    ("semantic-tokens-delta-full", "SemanticTokensDeltaResponse", _resp({"data": [1, 2, 3]})),
    # signature help: parameter label tuple
    ("signature-help", "SignatureHelpResponse", _resp({"signatures": [{"label": "f(a, b)", "documentation": {"kind": "markdown", "value": "d"},
                                                                        "parameters": [{"label": "a"}, {"label": [5, 6], "documentation": "bdoc"}], "activeParameter": 1}],
                                                       "activeSignature": 0, "activeParameter": None})),
    # notebooks
    ("notebook-did-open", "DidOpenNotebookDocumentNotification", _notif("notebookDocument/didOpen", {
        "notebookDocument": {"uri": "file:///n.ipynb", "notebookType": "jupyter-notebook", "version": 1, "metadata": {"k": {"deep": [1]}},
                             "cells": [{"kind": 2, "document": "file:///n.ipynb#c1", "executionSummary": {"executionOrder": 3, "success": True}}]},
        "cellTextDocuments": [{"uri": "file:///n.ipynb#c1", "languageId": "python", "version": 1, "text": "x"}]})),
    ("notebook-did-change", "DidChangeNotebookDocumentNotification", _notif("notebookDocument/didChange", {
        "notebookDocument": {"uri": "file:///n.ipynb", "version": 2},
        "change": {"metadata": {"a": 1}, "cells": {"structure": {"array": {"start": 0, "deleteCount": 1, "cells": [{"kind": 1, "document": "file:///c"}]}, "didOpen": [], "didClose": [{"uri": "file:///c0"}]},
                                                     "data": [{"kind": 2, "document": "file:///c"}],
                                                     "textContent": [{"document": {"uri": "file:///c", "version": 3}, "changes": [{"range": R0, "rangeLength": 5, "text": "t"}, {"text": "whole"}]}]}}})),
    # text sync
    ("did-change", "DidChangeTextDocumentNotification", _notif("textDocument/didChange", {"textDocument": {"uri": "file:///a", "version": 2}, "contentChanges": [{"range": R0, "text": "a"}, {"text": "full"}]})),
    ("did-open", "DidOpenTextDocumentNotification", _notif("textDocument/didOpen", {"textDocument": {"uri": "file:///a", "languageId": "mylang", "version": 1, "text": "t"}})),
    # registration with LSPAny payloads and document selectors
    ("registration", "RegistrationRequest", _req("client/registerCapability", {"registrations": [
        {"id": "1", "method": "textDocument/hover", "registerOptions": {"documentSelector": [{"language": "python", "scheme": "file"}]}},
        {"id": "2", "method": "workspace/didChangeWatchedFiles", "registerOptions": {"watchers": [{"globPattern": "**/*.py", "kind": 7}]}}]})),
    ("watched-files-reg-options", "DidChangeWatchedFilesRegistrationOptions", {"watchers": [{"globPattern": "**/*.py", "kind": 3}, {"globPattern": {"baseUri": "file:///w", "pattern": "*.x"}, "kind": 12},
                                                                                           {"globPattern": {"baseUri": {"uri": "file:///w", "name": "w"}, "pattern": "*.y"}}]}),
    ("text-document-registration-options", "TextDocumentRegistrationOptions", {"documentSelector": [{"language": "a"}, {"scheme": "s"}, {"pattern": "p"}, {"notebook": "n", "language": "l"}]}),
    ("text-document-registration-null", "TextDocumentRegistrationOptions", {"documentSelector": None}),
    # progress with LSPAny value; cancel; open enums
    ("progress-begin", "ProgressNotification", _notif("$/progress", {"token": "id1", "value": {"title": "Begin", "kind": "begin", "percentage": 0}})),
    ("progress-int-token", "ProgressNotification", _notif("$/progress", {"token": 5, "value": [1, 2, {"a": None}]})),
    ("cancel", "CancelNotification", _notif("$/cancelRequest", {"id": "r-1"})),
    ("cancel-bad-method", "CancelNotification", _notif("$/nope", {"id": 1})),
    ("exit", "ExitNotification", {"jsonrpc": "2.0", "method": "exit"}),
    ("exit-invalid", "ExitNotification", {"method": "invalid"}),
    ("shutdown-request", "ShutdownRequest", {"jsonrpc": "2.0", "id": 2**31 - 1, "method": "shutdown"}),
    ("shutdown-request-bigid", "ShutdownRequest", {"jsonrpc": "2.0", "id": 2**31, "method": "shutdown"}),
    ("response-error", "ResponseErrorMessage", {"jsonrpc": "2.0", "id": 1, "error": {"code": -32700, "message": "parse", "data": {"x": 1}}}),
    ("response-error-custom-code", "ResponseErrorMessage", {"jsonrpc": "2.0", "id": "s", "error": {"code": 12345, "message": "custom"}}),
    ("watch-kind", "FileSystemWatcher", {"globPattern": "*", "kind": 5}),
    ("folding-range", "FoldingRangeResponse", _resp([{"startLine": 1, "endLine": 2, "kind": "region"}, {"startLine": 3, "endLine": 9, "kind": "mykind", "collapsedText": "..."}])),
    ("call-hierarchy-incoming", "CallHierarchyIncomingCallsResponse", _resp([{"from": {"name": "f", "kind": 12, "uri": "file:///a", "range": R1, "selectionRange": R0}, "fromRanges": [R0]}])),
    ("type-hierarchy", "TypeHierarchySupertypesResponse", _resp([{"name": "T", "kind": 5, "uri": "file:///a", "range": R1, "selectionRange": R0, "data": "d"}])),
    ("document-links", "DocumentLinkResponse", _resp([{"range": R0, "target": "https://x", "tooltip": "t", "data": None}])),
    ("color-presentation", "ColorPresentationResponse", _resp([{"label": "#fff", "textEdit": {"range": R0, "newText": "#fff"}}])),
    ("document-colors", "DocumentColorResponse", _resp([{"range": R0, "color": {"red": 0.5, "green": 1, "blue": 0.0, "alpha": 1.0}}])),
    ("document-diagnostic-full", "DocumentDiagnosticResponse", _resp({"kind": "full", "resultId": "r", "items": [{"range": R0, "message": "m"}],
                                                                       "relatedDocuments": {"file:///o": {"kind": "unchanged", "resultId": "q"}, "file:///p": {"kind": "full", "items": []}}})),
    ("document-diagnostic-unchanged", "DocumentDiagnosticResponse", _resp({"kind": "unchanged", "resultId": "r"})),
    ("workspace-diagnostic", "WorkspaceDiagnosticResponse", _resp({"items": [{"kind": "full", "uri": "file:///a", "version": None, "items": []}, {"kind": "unchanged", "uri": "file:///b", "version": 2, "resultId": "z"}]})),
    ("will-rename-files", "WillRenameFilesRequest", _req("workspace/willRenameFiles", {"files": [{"oldUri": "file:///a", "newUri": "file:///b"}]})),
    ("configuration", "ConfigurationResponse", _resp([None, 1, "s", {"a": [True]}])),
    ("execute-command", "ExecuteCommandRequest", _req("workspace/executeCommand", {"command": "c", "arguments": [1, "a", None, {"o": {"p": []}}, [[]]]})),
    ("show-message-request", "ShowMessageRequest", _req("window/showMessageRequest", {"type": 1, "message": "m", "actions": [{"title": "Retry"}]})),
    ("work-done-create", "WorkDoneProgressCreateRequest", _req("window/workDoneProgress/create", {"token": 7})),
    ("inline-completion", "InlineCompletionResponse", _resp({"items": [{"insertText": "x", "range": R0}, {"insertText": {"kind": "snippet", "value": "$0"}}]})),
    ("inline-completion-list", "InlineCompletionResponse", _resp([{"insertText": "x"}])),
    ("moniker", "MonikerResponse", _resp([{"scheme": "s", "identifier": "i", "unique": "project", "kind": "export"}])),
    ("selection-range", "SelectionRangeResponse", _resp([{"range": R0, "parent": {"range": R1, "parent": {"range": R1}}}])),
    ("linked-editing", "LinkedEditingRangeResponse", _resp({"ranges": [R0, R1], "wordPattern": "\\w+"})),
    ("formatting-request", "DocumentFormattingRequest", _req("textDocument/formatting", {"textDocument": {"uri": "u"}, "options": {"tabSize": 4, "insertSpaces": True, "trimTrailingWhitespace": True}})),
    ("did-change-configuration", "DidChangeConfigurationNotification", _notif("workspace/didChangeConfiguration", {"settings": {"a": {"b": [1, None]}}})),
    ("log-trace", "LogTraceNotification", _notif("$/logTrace", {"message": "m", "verbose": "v"})),
    ("set-trace-bad", "SetTraceNotification", _notif("$/setTrace", {"value": "loud"})),
    ("extra-keys", "Position", {"line": 1, "character": 2, "extra": True}),
    ("wrong-shape-list", "Range", [1, 2]),
    ("wrong-shape-str", "Location", "file:///a"),
    ("null-required", "TextDocumentIdentifier", {"uri": None}),
]

# the user's OWN classes over the generic types for which get_converter registers hooks on their converter
STRUCT += [
    ("user-thing-int", "UserThing", {"ident": 7, "flag": True, "anything": {"a": [1, None]}, "maybe_id": "x", "nothing": None, "label": [1, 2]}),
    ("user-thing-str", "UserThing", {"ident": "seven", "flag": "yes", "anything": False, "label": "lbl"}),
    ("user-thing-odd", "UserThing", {"ident": 1.5, "flag": 3, "maybe_id": None}),
    ("user-box", "UserBox", {"things": [{"ident": 1}, {"ident": "b", "label": [3, 4]}], "position": {"line": 1, "character": 2}}),
    # two different classes of the user with the very same module and qualified name (attrs.make_class
    # twice / a class defined inside a function called twice): anything keyed by the NAME of a class
    # instead of the class confuses them
    ("user-twin-a", "TwinA", {"traceLevel": 2, "dryRun": True}),
    ("user-twin-b", "TwinB", {"workDoneToken": "t-1", "partialResultToken": 5, "traceLevel": "verbose"}),
    ("user-twin-b-again", "TwinB", {"workDoneToken": 7, "traceLevel": "off"}),
    ("user-twin-a-again", "TwinA", {"traceLevel": 0}),
    ("user-local-a", "LocalA", {"firstName": "a", "retryCount": 3}),
    ("user-sub-position", "TracedPosition", {"line": 1, "character": 2, "traceId": "t-9", "originFile": "a.py"}),
    ("user-sub-range", "TaggedRange", {"start": {"line": 1, "character": 2}, "end": {"line": 3, "character": 4}, "tagName": "x", "lineCount": 2}),
    ("user-sub-sub-position", "DeepTraced", {"line": 5, "character": 6, "traceId": "t-1", "hopCount": 3}),
    ("user-sub-position-plain", "TracedPosition", {"line": 7, "character": 8}),
    ("user-own-scalar", "UserDoc", {"uri": "FILE:///X.py", "version": 3, "links": ["A", "b"]}),
    ("user-unresolvable", "UserBroken", {"ident": 1}),
    ("user-holder-of-unresolvable", "UserHolder", {"position": {"line": 1, "character": 2}, "inner": {"ident": 2}}),
    ("user-holder-without-it", "UserHolder", {"position": {"line": 3, "character": 4}}),
    ("user-local-b", "LocalB", {"retryCount": "many", "lastSeenVersion": 2, "firstName": ["x", "y"]}),
]

# large payloads (what real servers send): size-dependent fast paths must not change results nor affect
# other converters while they run
def _big(n):
    return [{"label": f"item{i}", "kind": 1 + i % 25, "textEdit": {"range": R0, "newText": str(i)}} for i in range(n)]


STRUCT += [
    ("big-completion-items-1100", "CompletionResponse", _resp(_big(1100))),
    ("big-completion-list-1300", "CompletionResponse", _resp({"isIncomplete": False, "items": _big(1300)})),
    ("big-doc-symbols-1200", "DocumentSymbolResponse", _resp([{"name": f"s{i}", "kind": 12, "range": R1, "selectionRange": R0} for i in range(1200)])),
    ("big-ws-symbols-1050", "WorkspaceSymbolResponse", _resp([{"name": f"s{i}", "kind": 12, "location": LOC} for i in range(1050)])),
    ("big-locations-2100", "ReferencesResponse", _resp([LOC] * 2100)),
    ("big-diagnostics-1500", "PublishDiagnosticsNotification", _notif("textDocument/publishDiagnostics", {"uri": "file:///x", "diagnostics": [{"range": R0, "message": str(i)} for i in range(1500)]})),
    ("big-semantic-tokens-20000", "SemanticTokensResponse", _resp({"data": list(range(20000))})),
    ("big-text-edits-5000", "DocumentFormattingResponse", _resp([{"range": R0, "newText": "x"}] * 5000)),
]
def _deep_symbols(depth):
    node = {"name": "leaf", "kind": 12, "range": R1, "selectionRange": R0}
    for i in range(depth):
        node = {"name": f"n{i}", "kind": 5, "range": R1, "selectionRange": R0, "children": [node]}
    return node


def _deep_selection(depth):
    node = {"range": R0}
    for _ in range(depth):
        node = {"range": R1, "parent": node}
    return node


STRUCT += [
    # deeply nested payloads: 120 levels are fine, 600 levels exceed the default recursion limit (an error,
    # but the SAME error for every converter, alone or not)
    ("big-deep-symbols-120", "DocumentSymbolResponse", _resp([_deep_symbols(120)])),
    ("big-deep-symbols-600", "DocumentSymbolResponse", _resp([_deep_symbols(600)])),
    ("big-deep-selection-150", "SelectionRangeResponse", _resp([_deep_selection(150)])),
    ("big-deep-lspany-200", "ExecuteCommandRequest", _req("workspace/executeCommand", {"command": "c", "arguments": [eval("[" * 200 + "]" * 200)]})),
]
BIG = [i for i, b in enumerate(STRUCT) if b[0].startswith("big-")]

BUILD = [
    ("b-position", "lsp.Position(line=1, character=2)"),
    ("b-range", "lsp.Range(start=lsp.Position(line=1, character=2), end=lsp.Position(line=3, character=4))"),
    ("b-location", "lsp.Location(uri='file:///a', range=lsp.Range(start=lsp.Position(line=0, character=0), end=lsp.Position(line=0, character=1)))"),
    ("b-exit", "lsp.ExitNotification()"),
    ("b-shutdown", "lsp.ShutdownRequest(id=1)"),
    ("b-shutdown-response", "lsp.ShutdownResponse(id=1)"),
    ("b-progress", "lsp.ProgressNotification(params=lsp.ProgressParams(token='id1', value={'kind': 'end', 'message': 'Finished'}))"),
    ("b-semantic-refresh", "lsp.SemanticTokensRefreshRequest(id='x')"),
    ("b-init-result", "lsp.InitializeResponse(id=1, result=lsp.InitializeResult(capabilities=lsp.ServerCapabilities(hover_provider=True, text_document_sync=lsp.TextDocumentSyncKind.Incremental, "
                      "position_encoding='utf-8', completion_provider=lsp.CompletionOptions(trigger_characters=['.'])), server_info=lsp.ServerInfo(name='n')))"),
    ("b-hover", "lsp.HoverResponse(id=2, result=lsp.Hover(contents=lsp.MarkupContent(kind=lsp.MarkupKind.Markdown, value='v')))"),
    ("b-hover-null", "lsp.HoverResponse(id=2, result=None)"),
    ("b-completion-item", "lsp.CompletionItem(label='l', kind=lsp.CompletionItemKind.Class, tags=[lsp.CompletionItemTag.Deprecated], text_edit=lsp.TextEdit(range=lsp.Range(start=lsp.Position(line=0, character=0), end=lsp.Position(line=0, character=0)), new_text='n'))"),
    ("b-diagnostic", "lsp.Diagnostic(range=lsp.Range(start=lsp.Position(line=0, character=0), end=lsp.Position(line=0, character=0)), message='m', severity=lsp.DiagnosticSeverity.Error, code=3, data=[1, {'a': None}])"),
    ("b-call-hierarchy-incoming", "lsp.CallHierarchyIncomingCall(from_=lsp.CallHierarchyItem(name='f', kind=lsp.SymbolKind.Function, uri='u', range=lsp.Range(start=lsp.Position(line=0, character=0), end=lsp.Position(line=0, character=0)), "
                                  "selection_range=lsp.Range(start=lsp.Position(line=0, character=0), end=lsp.Position(line=0, character=0))), from_ranges=[])"),
    ("b-versioned-doc-null", "lsp.OptionalVersionedTextDocumentIdentifier(uri='u', version=None)"),
    ("b-text-document-edit", "lsp.TextDocumentEdit(text_document=lsp.OptionalVersionedTextDocumentIdentifier(uri='u', version=None), edits=[lsp.AnnotatedTextEdit(range=lsp.Range(start=lsp.Position(line=0, character=0), end=lsp.Position(line=0, character=0)), new_text='', annotation_id='a')])"),
    ("b-create-file", "lsp.CreateFile(uri='u', options=lsp.CreateFileOptions(overwrite=True))"),
    ("b-signature", "lsp.SignatureInformation(label='f(a)', parameters=[lsp.ParameterInformation(label=(2, 3)), lsp.ParameterInformation(label='a')])"),
    ("b-response-error", "lsp.ResponseErrorMessage(id=1, error=lsp.ResponseError(code=lsp.ErrorCodes.ParseError, message='m'))"),
    ("b-registration", "lsp.Registration(id='1', method='textDocument/hover', register_options=lsp.HoverRegistrationOptions(document_selector=None))"),
]

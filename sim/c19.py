"""C19 — converters are independent of creation order, count, configuration and threads.

One simulated run = fork of a warm zygote (lsprotocol imported, no converter ever created) in which
N scripted threads run under the deterministic scheduler of sim/threads.py.  Oracle = golden outcomes
from a sequential, untraced, single fresh converter in a separate forked child.
"""
from __future__ import annotations

import enum
import gc
import json
import os
import re
import select
import signal
import sys
import time
import traceback
from typing import Any, Dict, List, Optional, Tuple

from . import battery, core
from .threads import Deadlock, Scheduler, SimCondition, SimEvent, SimLock, StepCap

PROP = "C19"
# fraction of eligible multi-thread runs that also pre-empt inside attrs/cattrs modules (deep mode);
# 8 000 deep runs were clean on the repaired tree before it was switched on by default
DEEP_RATE = float(os.environ.get("VERIF_C19_DEEP", "0.08"))
N_BASE_STRUCT = len(battery.STRUCT)


def install_extras(extras: List[List[Any]]) -> None:
    """Extend the battery (before any golden is computed / any worker is forked)."""
    del battery.STRUCT[N_BASE_STRUCT:]
    for nm, tname, js in extras:
        battery.STRUCT.append((nm, tname, js))
    Z["golden"] = None
    Z.pop("expr_types", None)


def hm_start() -> int:
    """Index of the first hook-matrix item of the battery (they come last, names start with 'hm:')."""
    n = len(battery.STRUCT)
    while n > N_BASE_STRUCT and battery.STRUCT[n - 1][0].startswith("hm:"):
        n -= 1
    return n


def generate_hookmatrix(limit: int) -> Tuple[List[List[Any]], Dict[str, Any], Optional[str]]:
    import subprocess

    try:
        p = subprocess.run([sys.executable, "-m", "sim.hookmatrix", str(core.repo_root()), str(limit)], cwd=str(core.VERIF),
                           capture_output=True, text=True, timeout=300, env={k: v for k, v in os.environ.items() if k != "PYTHONHASHSEED"} | {"PYTHONHASHSEED": "0"})
        if p.returncode != 0:
            return [], {}, "hook matrix generator failed: " + (p.stderr.strip().splitlines()[-1][:200] if p.stderr.strip() else "rc!=0")
        d = json.loads(p.stdout.strip().splitlines()[-1])
        return d["items"], {"hooked_types": d["types"], "hook_registrations_seen": d["recorded"]}, None
    except Exception as e:  # a tree whose get_converter() fails is reported by the runs, not here
        return [], {}, f"hook matrix generator failed: {core.fmt_exc(e)[:200]}"


def resolve_type(tname: str) -> Any:
    if tname.startswith("expr:"):
        cache = Z.setdefault("expr_types", {})
        if tname not in cache:
            import builtins
            import typing as _t

            import lsprotocol

            cache[tname] = eval(tname[5:], {"typing": _t, "lsprotocol": lsprotocol, "NoneType": type(None), "builtins": builtins})
        return cache[tname]
    return Z["user_types"].get(tname) or getattr(Z["lsp"], tname)


def generate_extras(seed: int, count: int) -> Tuple[List[List[Any]], Optional[str]]:
    import subprocess

    try:
        p = subprocess.run([sys.executable, "-m", "sim.extras", str(core.repo_root()), str(seed), str(count)], cwd=str(core.VERIF),
                           capture_output=True, text=True, timeout=300, env={k: v for k, v in os.environ.items() if k != "PYTHONHASHSEED"} | {"PYTHONHASHSEED": "0"})
        if p.returncode != 0:
            return [], "extras generator failed: " + p.stderr.strip().splitlines()[-1][:200] if p.stderr.strip() else "rc!=0"
        return json.loads(p.stdout.strip().splitlines()[-1]), None
    except Exception as e:  # the generator of the tree under test is not C19's subject
        return [], f"extras generator failed: {core.fmt_exc(e)[:200]}"

BUGGIFY_SITES = [
    "resolve_types",
    "get_type_hints",
    "register_structure_hook",
    "register_unstructure_hook",
    "register_structure_hook_factory",
    "register_unstructure_hook_factory",
    "make_dict_structure_fn",
    "make_dict_unstructure_fn",
    "_eval_type",
]

# --------------------------------------------------------------------------------------------
# zygote state (per worker process)
# --------------------------------------------------------------------------------------------
Z: Dict[str, Any] = {}


def zygote_init(repo: str) -> None:
    """Import the package under test from the current working tree; never create a converter here."""
    pkg_parent = os.path.join(repo, "packages", "python")
    sys.path.insert(0, pkg_parent)
    sys.dont_write_bytecode = True
    import attrs  # noqa
    import cattrs  # noqa
    import lsprotocol  # noqa
    import lsprotocol.converters as conv
    import lsprotocol.types as lsp
    import lsprotocol._hooks as hooks

    got = os.path.realpath(os.path.dirname(lsprotocol.__file__))
    want = os.path.realpath(os.path.join(pkg_parent, "lsprotocol"))
    if got != want:
        raise core.HarnessError(f"lsprotocol imported from {got}, expected {want}")

    class CountingConverter(cattrs.Converter):
        """User-supplied converter class: cattrs.Converter is slotted, so instrumentation lives in a
        subclass.  It only counts; behaviour is inherited unchanged."""

        __slots__ = ("sim_structure_calls", "sim_tag")

        def __init__(self, *a: Any, **kw: Any) -> None:
            super().__init__(*a, **kw)
            self.sim_structure_calls = 0
            self.sim_tag = None

    class ReentrantConverter(CountingConverter):
        """A converter class of the user that itself calls get_converter() (for a helper converter of its
        own) the first time something is registered on it — i.e. from inside lsprotocol's registration."""

        __slots__ = ("sim_helper",)

        def __init__(self, *a: Any, **kw: Any) -> None:
            object.__setattr__(self, "sim_helper", False)
            super().__init__(*a, **kw)
            self.sim_helper = None

        def register_structure_hook_factory(self, *a: Any, **kw: Any) -> Any:
            if self.sim_helper is None:
                self.sim_helper = True
                self.sim_helper = conv.get_converter()
            return super().register_structure_hook_factory(*a, **kw)

    Z["Reentrant"] = ReentrantConverter
    from . import usertypes

    Z["user_types"] = usertypes.make(lsp)
    Z.update(
        repo=repo,
        conv=conv,
        lsp=lsp,
        hooks=hooks,
        cattrs=cattrs,
        attrs=attrs,
        Counting=CountingConverter,
        pkg_dir=want,
        golden=None,
    )


# --------------------------------------------------------------------------------------------
# outcome computation
# --------------------------------------------------------------------------------------------

def typed(o: Any, depth: int = 0) -> Any:
    """Typed image of a structured object graph: class names, enum member vs primitive, tuple vs
    list, bool vs int vs float."""
    attrs = Z["attrs"]
    if depth > 60:
        return "<deep>"
    if o is None or isinstance(o, (bool, str)):
        return [type(o).__name__, o]
    if isinstance(o, enum.Enum):
        return ["enum", type(o).__name__, o.value]
    if isinstance(o, (int, float)):
        return [type(o).__name__, repr(o)]
    if isinstance(o, (list, tuple)):
        return [type(o).__name__, [typed(x, depth + 1) for x in o]]
    if isinstance(o, dict):
        return ["dict", [[typed(k, depth + 1), typed(v, depth + 1)] for k, v in o.items()]]
    if attrs.has(type(o)):
        return [
            "obj",
            type(o).__name__,
            [[a.name, typed(getattr(o, a.name), depth + 1)] for a in attrs.fields(type(o))],
        ]
    return ["other", type(o).__name__, re.sub(r"0x[0-9a-fA-F]+", "0x?", repr(o))[:80]]  # no addresses


def _addr_free_repr(o: Any) -> str:
    return re.sub(r"0x[0-9a-fA-F]+", "0x?", repr(o))


def _scribble(o: Any, depth: int = 0, budget: Optional[List[int]] = None) -> None:
    """Mutate a structured result the way a careless user could (append to lists, add dict keys, reset
    optional fields): a later call must not be affected, i.e. results may not alias each other or any
    state kept by a converter."""
    attrs = Z["attrs"]
    budget = budget if budget is not None else [200]
    if depth > 12 or budget[0] <= 0 or o is None:
        return
    budget[0] -= 1
    if isinstance(o, list):
        for x in list(o):
            _scribble(x, depth + 1, budget)
        o.append("sim-scribble")
    elif isinstance(o, dict):
        for x in list(o.values()):
            _scribble(x, depth + 1, budget)
        o["simScribble"] = True
    elif attrs.has(type(o)):
        for a in attrs.fields(type(o)):
            v = getattr(o, a.name, None)
            _scribble(v, depth + 1, budget)
            if v is not None and not isinstance(v, (list, dict)):
                try:
                    setattr(o, a.name, None)  # validated on set: only optional fields accept it
                except Exception:
                    pass


def exc_shape(e: BaseException, depth: int = 0) -> Any:
    """Shape of an exception: type names of the (grouped) exception tree plus the cattrs notes that say
    where it happened — no messages (they may contain reprs), nothing address-dependent."""
    if depth > 12:
        return "<deep>"
    notes = [str(n)[:120] for n in getattr(e, "__notes__", []) if "0x" not in str(n)]
    kids = [exc_shape(x, depth + 1) for x in getattr(e, "exceptions", [])]
    return [type(e).__name__, notes, kids]


def do_use(conv: Any, k: int) -> Tuple:
    name, tname, js = battery.STRUCT[k]
    lsp = Z["lsp"]
    try:
        t = resolve_type(tname)
        inp = json.loads(json.dumps(js))
        obj = conv.structure(inp, t)
        if inp != js:
            return ("mutated-input", "structure() changed the caller's input value")
        img = core.digest(typed(obj))
        out = json.dumps(conv.unstructure(obj), sort_keys=False, default=_addr_free_repr)
        # the same call again after the first result was scribbled over: must be unaffected
        _scribble(obj)
        obj2 = conv.structure(json.loads(json.dumps(js)), t)
        if core.digest(typed(obj2)) != img:
            return ("unstable", "result of an earlier structure() call is aliased by a later one")
        return ("ok", img, core.digest(out))
    except Exception as e:
        return ("err", type(e).__name__, core.digest(exc_shape(e)))


def do_build(conv: Any, k: int) -> Tuple:
    name, expr = battery.BUILD[k]
    lsp = Z["lsp"]
    try:
        obj = eval(expr, {"lsp": lsp})
        out = json.dumps(conv.unstructure(obj), sort_keys=False, default=_addr_free_repr)
        # the same through the explicit-type entry point, and back again through the declared class
        out_as = json.dumps(conv.unstructure(obj, unstructure_as=type(obj)), sort_keys=False, default=_addr_free_repr)
        back = conv.structure(json.loads(out), type(obj))
        return ("ok", core.digest(out), core.digest(typed(back)), core.digest(out_as))
    except Exception as e:
        return ("err", type(e).__name__, core.digest(exc_shape(e)))


CUSTOM_VARIANTS = ["position", "range", "severity", "primitives", "factory", "optional", "ownscalar"]


def customise(conv: Any, variant: str = "position") -> None:
    """What a user may do to *their* converter: own hooks for one LSP type."""
    lsp = Z["lsp"]
    if variant == "position":
        def s_hook(o: Any, _t: Any) -> Any:
            return lsp.Position(line=int(o["line"]) + 1000, character=int(o["character"]))

        def u_hook(p: Any) -> Any:
            return {"line": p.line, "character": p.character, "simCustom": True}

        conv.register_structure_hook(lsp.Position, s_hook)
        conv.register_unstructure_hook(lsp.Position, u_hook)
    elif variant == "range":
        def r_hook(o: Any, _t: Any) -> Any:
            # the user wants normalised ranges: start and end swapped on purpose to be observable
            return lsp.Range(start=conv.structure(o["end"], lsp.Position), end=conv.structure(o["start"], lsp.Position))

        conv.register_structure_hook(lsp.Range, r_hook)
    elif variant == "severity":
        def sev_s(o: Any, _t: Any) -> Any:
            return lsp.DiagnosticSeverity.Hint

        def sev_u(v: Any) -> Any:
            return 4000 + int(v.value)

        conv.register_structure_hook(lsp.DiagnosticSeverity, sev_s)
        conv.register_unstructure_hook(lsp.DiagnosticSeverity, sev_u)
    elif variant == "factory":
        # a user hook FACTORY selected by a predicate (what cattrs users write for families of classes)
        def is_text_edit(t: Any) -> bool:
            return t is lsp.TextEdit

        def make_te(_t: Any) -> Any:
            return lambda o, _tt: lsp.TextEdit(range=conv.structure(o["range"], lsp.Range), new_text="<" + str(o["newText"]) + ">")

        conv.register_structure_hook_factory(is_text_edit, make_te)
        conv.register_unstructure_hook_factory(lambda t: t is lsp.Command, lambda _t: (lambda c: {"title": c.title.upper(), "command": c.command}))
    elif variant == "ownscalar":
        # predicate hooks for the user's OWN scalar type (not an attrs class, so nothing lsprotocol
        # registers ever shadows them)
        UserUri = Z["user_types"]["UserUri"]
        conv.register_structure_hook_func(lambda t: t is UserUri, lambda o, _tt: UserUri(str(o).lower() + "#u"))
        conv.register_unstructure_hook_func(lambda t: t is UserUri, lambda v: str(v.value) + "?u")
    elif variant == "optional":
        # a user hook for a generic alias
        from typing import Optional as _Opt

        conv.register_structure_hook(_Opt[lsp.Command], lambda o, _t: None if o is None else lsp.Command(title="user:" + str(o.get("title")), command=str(o.get("command"))))
    elif variant == "primitives":
        # hooks for JSON primitives: a strict bool and rounded floats
        def strict_bool(o: Any, _t: Any) -> bool:
            if not isinstance(o, bool):
                raise ValueError(f"not a bool: {o!r}")
            return o

        conv.register_structure_hook(bool, strict_bool)
        conv.register_structure_hook(int, lambda o, _t: int(o) + 1000)
        conv.register_unstructure_hook(float, lambda v: round(v, 1) + 1000.0)
        conv.register_unstructure_hook(str, lambda v: v if len(v) < 3 else v[:-1] + v[-1].upper())
    else:
        raise ValueError(variant)


def make_user(cfg: Any) -> Any:
    """A user-supplied converter.  cfg: None | True | False (detailed_validation) or a dict
    {'dv': None|True|False, 'fek': bool} (fek = forbid_extra_keys)."""
    Counting = Z["Counting"]
    if not isinstance(cfg, dict):
        cfg = {"dv": cfg, "fek": False}
    kw: Dict[str, Any] = {}
    if cfg.get("dv") is not None:
        kw["detailed_validation"] = cfg["dv"]
    if cfg.get("fek"):
        kw["forbid_extra_keys"] = True
    if cfg.get("x") == "reent":
        return Z["Reentrant"](**kw)
    if cfg.get("x") == "oid":
        kw["omit_if_default"] = True
    elif cfg.get("x") == "pac":
        kw["prefer_attrib_converters"] = True
    return Counting(**kw)


def cfg_of(cfg: Any) -> Tuple[bool, bool, str]:
    """(detailed_validation, forbid_extra_keys, other option) of a converter configuration (cattrs
    default dv=True); other option: '-' | 'oid' (omit_if_default) | 'pac' (prefer_attrib_converters)."""
    if not isinstance(cfg, dict):
        cfg = {"dv": cfg, "fek": False}
    x = cfg.get("x") or "-"
    return (True if cfg.get("dv") is None else bool(cfg["dv"]), bool(cfg.get("fek")), "-" if x == "reent" else x)


def gkey(custom: Optional[str], dv: bool, fek: bool, x: str = "-") -> str:
    return f"{custom or 'plain'}|dv={int(dv)}|fek={int(fek)}|x={x}"


def all_golden_keys() -> List[str]:
    customs = [None] + [f"{w}:{v}" for w in ("pre", "post") for v in CUSTOM_VARIANTS]
    return [gkey(c, dv, fek) for c in customs for dv in (True, False) for fek in (False, True)] + [gkey(None, True, False, "oid"), gkey(None, True, False, "pac")]


def compute_golden_key(key: str) -> Dict[str, Any]:
    """Reference outcomes of ONE lone converter of the given kind: sequential, untraced, one thread.
    plain: fresh get_converter() (default configuration) or a user converter with the given options;
    pre:V  user converter customised with variant V before get_converter; post:V customised after."""
    conv = Z["conv"]
    rev = key.startswith("rev:")
    if rev:
        key = key[4:]
    custom, dvs, feks, xs = key.split("|")
    dv, fek, x = dvs == "dv=1", feks == "fek=1", xs[2:]
    if dv and not fek and x == "-" and custom == "plain":
        c = conv.get_converter()
    else:
        base = make_user({"dv": dv, "fek": fek, "x": None if x == "-" else x})
        if custom.startswith("pre:"):
            customise(base, custom[4:])
        c = conv.get_converter(base)
    if custom.startswith("post:"):
        customise(c, custom[5:])
    if rev:
        # the same lone converter asked in the opposite order (hook matrix first, last item first): what a
        # converter answers must not depend on what it was asked before
        nS_, nB_ = len(battery.STRUCT), len(battery.BUILD)
        use_r = {k: do_use(c, k) for k in reversed(range(nS_))}
        build_r = {k: do_build(c, k) for k in reversed(range(nB_))}
        return {"use": [use_r[k] for k in range(nS_)], "build": [build_r[k] for k in range(nB_)]}
    return {"use": [do_use(c, k) for k in range(len(battery.STRUCT))], "build": [do_build(c, k) for k in range(len(battery.BUILD))]}


def golden_task(key: str) -> Tuple[str, Dict[str, Any]]:
    return key, _fork_call(compute_golden_key, (key,), 300.0)


def needed_keys(run: Dict[str, Any]) -> List[str]:
    cfgs = {(True, False, "-")}
    customs: set = {None}
    for i, c in enumerate(run.get("shared_dv", [])):
        cfgs.add(cfg_of(c))
        v = run["shared_custom"][i] if i < len(run.get("shared_custom", [])) else None
        if v:
            customs.add(f"pre:{v if isinstance(v, str) else 'position'}")
    for ops in run["threads"]:
        for op in ops:
            if op[0] in ("GET", "GETX") and op[2] == "user":
                cfgs.add(cfg_of(op[3]))
            elif op[0] == "GET" and op[2] == "copy":
                cfgs.add((bool(op[3][1]), bool(op[3][2]), "-"))
                cfgs.update({(True, False, "oid"), (True, False, "pac")})
            elif op[0] == "CUSTOM":
                customs.add(f"post:{op[2] if len(op) > 2 else 'position'}")
    return sorted(gkey(c, dv, fek, x) for c in customs for dv, fek, x in cfgs)


def golden_for(keys: List[str]) -> Dict[str, Any]:
    """Golden outcomes for the given keys, computed on demand (each in its own forked child) and
    cached in this process; the check driver pre-computes all of them in parallel before the pool
    is forked, so workers inherit the full cache."""
    cache = Z.setdefault("golden", None) or {}
    Z["golden"] = cache
    for k in keys:
        if k not in cache:
            cache[k] = _fork_call(compute_golden_key, (k,), 300.0)
    return {k: cache[k] for k in keys}


# --------------------------------------------------------------------------------------------
# generation of a run
# --------------------------------------------------------------------------------------------

POLICIES = [
    {"kind": "uniform"},
    {"kind": "sticky", "p": 0.005},
    {"kind": "sticky", "p": 0.02},
    {"kind": "sticky", "p": 0.1},
    {"kind": "sticky", "p": 0.5},
    {"kind": "pct", "d": 1},
    {"kind": "pct", "d": 2},
    {"kind": "pct", "d": 3},
    {"kind": "delay", "k": 300, "p": 0.02},
    {"kind": "delay", "k": 2000, "p": 0.1},
]


def gen_run(run_seed: int, tier: str) -> Dict[str, Any]:
    r_ops = core.rng(run_seed, "ops")
    r_sched = core.rng(run_seed, "sched")
    nS, nB = len(battery.STRUCT), len(battery.BUILD)

    shape = r_ops.choices(
        ["concurrent_first", "late_joiner", "single_history", "burst", "shared_user", "big_payload", "churn", "long_life", "same_hook", "handoff", "global_custom"],
        weights=[30, 11, 15, 5, 16, 5, 5, 2, 6, 5, 4],
    )[0]
    if shape in ("single_history", "burst", "churn", "long_life", "global_custom"):
        n = 1
    elif shape == "big_payload":
        n = r_ops.choice([2, 2, 3])
    elif shape == "same_hook":
        n = r_ops.choice([2, 2, 3, 4])
    elif shape == "handoff":
        n = r_ops.choice([2, 3, 3, 4])
    else:
        n = r_ops.choice([2, 2, 2, 3, 3, 4, 5, 6])
    n_shared = 0
    pre: List[List[Any]] = []  # ops run by the controller before threads start (no lsprotocol calls
    # except CUSTOM on a not-yet-registered user converter)
    if shape == "shared_user" or r_ops.random() < 0.15:
        n_shared = r_ops.choice([1, 1, 2])
    def rand_cfg() -> Any:
        dv = r_ops.choice([None, True, False])
        y = r_ops.random()
        if y < 0.2:
            return {"dv": dv, "fek": True}
        if y < 0.28:
            return {"dv": None, "fek": False, "x": r_ops.choice(["oid", "pac"])}
        if y < 0.36:
            # the user's converter class calls get_converter() itself while lsprotocol registers on it
            return {"dv": dv, "fek": False, "x": "reent"}
        return dv

    shared_dv = [rand_cfg() for _ in range(n_shared)]
    shared_custom = [r_ops.choice(CUSTOM_VARIANTS) if r_ops.random() < 0.25 else None for _ in range(n_shared)]
    rereg = shape == "burst" and r_ops.random() < 0.4
    if rereg:
        # ONE converter of the user (often customised beforehand) handed to get_converter over and over
        # (a framework that calls get_converter(conv) per request): counts up to 300
        n_shared = 1
        shared_dv = [r_ops.choice([None, True, False, {"dv": None, "fek": True}])]
        shared_custom = [r_ops.choice(CUSTOM_VARIANTS + ["ownscalar"] * 6 + [None])]

    base_n = N_BASE_STRUCT - len(battery.BIG)
    small_invalid = [i for i, b in enumerate(battery.STRUCT[:base_n]) if b[0] in ("position-neg", "position-big", "position-missing", "diagnostic-bad-sev", "null-required", "wrong-shape-list")]

    hm0 = hm_start()
    user_items = [i for i, b in enumerate(battery.STRUCT[:base_n]) if b[0].startswith("user-")]

    def pick_k() -> int:
        x = r_ops.random()
        if x < 0.04 and battery.BIG:
            return r_ops.choice(battery.BIG)
        if x < 0.12 and small_invalid:
            return r_ops.choice(small_invalid)
        if x < 0.16 and user_items:
            return r_ops.choice(user_items)
        if x < 0.40 and hm0 < nS:
            return r_ops.randrange(hm0, nS)  # hook matrix: one hand-written hook, one input shape
        k = r_ops.randrange(hm0 - len(battery.BIG))
        return k if k < base_n else k + len(battery.BIG)  # skip over the big block

    def pick_k_small() -> int:
        if hm0 < nS and r_ops.random() < 0.3:
            return r_ops.randrange(hm0, nS)
        k = r_ops.randrange(hm0 - len(battery.BIG))
        return k if k < base_n else k + len(battery.BIG)

    def use_ops(slot: int, count: int) -> List[List[Any]]:
        ops = []
        for _ in range(count):
            if r_ops.random() < 0.8:
                ops.append(["USE", slot, pick_k()])
            else:
                ops.append(["BUILD", slot, r_ops.randrange(nB)])
        return ops

    global_used = [False]

    def get_op(slot: int, allow_shared: bool = True) -> List[Any]:
        x = r_ops.random()
        if n == 1 and shape == "single_history" and not global_used[0] and r_ops.random() < 0.12:
            # the user hands over the process-wide cattrs.global_converter (what cattrs.structure() uses)
            global_used[0] = True
            return ["GET", slot, "global", None]
        if n_shared and allow_shared and x < (0.6 if shape == "shared_user" else 0.25):
            return ["GET", slot, "shared", r_ops.randrange(n_shared)]
        if x < 0.55:
            return ["GET", slot, "fresh", None]
        op = ["GET", slot, "user", rand_cfg()]
        if r_ops.random() < 0.25:
            # the user already used their converter on LSP types before handing it over
            op.append([r_ops.randrange(nS) for _ in range(r_ops.randint(1, 4))])
        return op

    threads: List[List[List[Any]]] = []
    same_k = [0]
    for t in range(n):
        ops: List[List[Any]] = []
        nslots = 0
        if shape == "handoff":
            # thread 0 creates converters and hands them over; the other threads are pure CONSUMERS:
            # they never call get_converter themselves (the usual server: main thread creates, workers use)
            if t == 0:
                ops.append(get_op(0, allow_shared=False))
                ops.append(["PUBLISH", 0, 0])
                ops.append(get_op(1, allow_shared=False))
                ops.append(["PUBLISH", 1, 1])
                ops += use_ops(0, 2)
                nslots = 2
            else:
                for _ in range(r_ops.randint(3, 8)):
                    ops.append(["USEG", r_ops.randrange(2), pick_k()])
                nslots = 0
        elif shape == "same_hook":
            # every thread, on its own converter, handles the SAME kind of message at the same time: two
            # threads inside the same hand-written hook (and whatever it does to process-wide state)
            if t == 0:
                same_k[0] = r_ops.choice(battery.BIG) if r_ops.random() < 0.35 else pick_k_small()
            ops.append(get_op(0, allow_shared=False))
            for _ in range(r_ops.randint(1, 3)):
                ops.append(["USE", 0, same_k[0]])
            ops += use_ops(0, 1)
            nslots = 1
        elif shape == "global_custom":
            # the user hands the process-wide cattrs.global_converter (or their own converter) over and
            # customises it; an EARLIER and a LATER converter are then judged on the WHOLE battery
            ops.append(get_op(0, allow_shared=False) if r_ops.random() < 0.5 else ["GET", 0, "fresh", None])
            ops += use_ops(0, 2)
            ops.append(["GET", 1, "global", None] if r_ops.random() < 0.7 else ["GET", 1, "user", rand_cfg()])
            ops.append(["CUSTOM", 1, r_ops.choice(["primitives", "primitives", "position"] + CUSTOM_VARIANTS)])
            ops += use_ops(1, 2)
            ops.append(["FULLUSE", 0])
            ops.append(["GET", 2, "fresh", None] if r_ops.random() < 0.6 else ["GET", 2, "user", rand_cfg()])
            ops.append(["FULLUSE", 2])
            nslots = 3
        elif shape == "long_life":
            # one converter serves a long session (1 500-2 500 calls) while two others come and go:
            # size-limited caches, counters and "after N uses" paths
            ops.append(get_op(0, allow_shared=False))
            ops.append(get_op(1, allow_shared=False))
            total = r_ops.choice([1500, 2500])
            for i_ in range(total):
                ops.append(["USE", 0, pick_k_small()])
                if i_ % 500 == 250:
                    ops.append(["DROP", 1])
                    ops.append(get_op(1, allow_shared=False))
                    ops += use_ops(1, 2)
            ops += use_ops(0, 3)
            nslots = 2
        elif shape == "churn":
            # a long-running process: converters (mostly user-supplied) are created, used and dropped
            # one after another, so addresses / ids of dead converters get recycled many times
            ops.append(get_op(0, allow_shared=False))
            ops += use_ops(0, 1)
            for _ in range(r_ops.randint(8, 40)):
                ops.append(["DROP", 1])
                cfg_ = rand_cfg()
                ops.append(["GET", 1, "user", cfg_] if r_ops.random() < 0.8 else ["GET", 1, "fresh", None])
                ops += use_ops(1, 1)
            ops += use_ops(0, 2)
            nslots = 2
        elif shape == "big_payload":
            # one thread structures a very large payload while the others handle small (also invalid)
            # messages on their own converters
            ops.append(get_op(0, allow_shared=False))
            if t == 0:
                ops.append(["USE", 0, r_ops.choice(battery.BIG)])
                ops += use_ops(0, 1)
            else:
                for _ in range(r_ops.randint(2, 5)):
                    ops.append(["USE", 0, r_ops.choice(small_invalid) if r_ops.random() < 0.6 else pick_k()])
            nslots = 1
        elif shape == "burst" and rereg:
            ops.append(["GET", 0, "shared", 0])
            ops += use_ops(0, 2)
            ops.append(["REREG", 0, r_ops.choice([5, 300, 300, 300])])
            ops += use_ops(0, 4)
            ops.append(["FULLUSE", 0])
            ops.append(["GET", 1, "fresh", None])
            ops += use_ops(1, 2)
            nslots = 2
        elif shape == "burst":
            m = r_ops.choice([8, 33, 64, 100, 128])
            ops.append(["GET", 0, "fresh", None])
            ops += use_ops(0, 2)
            ops.append(["BURST", 1, m, r_ops.random() < 0.5])  # True: drop + collect the intermediate ones
            ops += use_ops(1, 3)
            ops += use_ops(0, 3)
            if r_ops.random() < 0.5:
                ops.append(["DROP", 1])
                ops.append(["GET", 2, "user", rand_cfg()])
                ops += use_ops(2, 3)
                ops += use_ops(0, 2)
            nslots = 2
        else:
            length = r_ops.randrange(2, 9) if n > 1 else r_ops.randrange(4, 24)
            ops.append(get_op(0))
            nslots = 1
            customised = set()
            shared_slots = {0} if ops[0][2] == "shared" else set()
            for _ in range(length):
                x = r_ops.random()
                if x < 0.50:
                    ops += use_ops(r_ops.randrange(nslots), 1)
                elif x < 0.72 and nslots < 5:
                    op = get_op(nslots)
                    if op[2] == "shared":
                        shared_slots.add(nslots)
                    ops.append(op)
                    nslots += 1
                elif x < 0.755 and nslots < 5:
                    # the user hands over a COPY of a converter get_converter returned earlier
                    # (cattrs Converter.copy(), possibly with another configuration)
                    src = r_ops.randrange(nslots)
                    if src not in customised and src not in shared_slots:
                        ops.append(["GET", nslots, "copy", [src, r_ops.choice([True, True, False]), r_ops.random() < 0.3]])
                        nslots += 1
                        ops += use_ops(nslots - 1, 2)
                        ops += use_ops(src, 1)
                elif x < 0.82:
                    s = r_ops.randrange(nslots)
                    if s not in customised:
                        ops.append(["REGET", s])
                elif x < 0.94:
                    s = r_ops.randrange(nslots)
                    if s not in shared_slots:
                        ops.append(["CUSTOM", s, r_ops.choice(CUSTOM_VARIANTS)])
                        customised.add(s)
                        ops += use_ops(s, 1)
                        # behaviour of the *others* must not change
                        others = [q for q in range(nslots) if q != s and q not in customised]
                        if others:
                            ops += use_ops(r_ops.choice(others), 2)
                elif x < 0.955 and n > 1:
                    # hand a converter over to the other threads (created here, used there)
                    ops.append(["PUBLISH", r_ops.randrange(nslots), t])
                elif x < 0.965 and n > 1:
                    ops.append(["USEG", r_ops.randrange(n), pick_k()])
                elif x < 0.97 and nslots >= 2 and n == 1:
                    # let a converter die (drop + collect), then create another: ids / weak references
                    # of dead converters must not matter (single-thread histories only: collection
                    # is process-wide)
                    sd = r_ops.randrange(nslots)
                    if sd not in shared_slots:
                        ops.append(["DROP", sd])
                        ops.append(get_op(sd, allow_shared=False))
                        customised.discard(sd)
                        ops += use_ops(sd, 2)
                else:
                    ops.append(["YIELD"])
            ops += use_ops(r_ops.randrange(nslots), 2)
            if n == 1 and r_ops.random() < 0.08:
                cand = [q for q in range(nslots) if q not in customised]
                if cand:
                    ops.append(["FULLUSE", r_ops.choice(cand)])
        threads.append(ops)

    if n > 1 and shape in ("concurrent_first", "late_joiner", "same_hook", "big_payload") and r_ops.random() < 0.22:
        # a creation that is INTERRUPTED (MemoryError / RecursionError / KeyboardInterrupt delivered at an
        # arbitrary line inside get_converter): that call may fail, every later creation must be fine
        for t in r_ops.sample(range(n), r_ops.choice([1, 1, 2]) if n > 2 else 1):
            g = threads[t][0]
            if g[0] == "GET" and g[2] in ("fresh", "user") and len(g) <= 4:
                k_ = r_ops.choice([r_ops.randint(1, 400), r_ops.randint(1, 6000), r_ops.randint(3000, 7000)])
                threads[t].insert(0, ["GETX", g[1], g[2], g[3], k_, r_ops.choice(["MemoryError", "RecursionError", "KeyboardInterrupt"])])

    start_after = [0] * n
    if shape == "handoff":
        for t in range(1, n):
            start_after[t] = r_ops.choice([0, 9000, 15000, 30000])
    if shape == "late_joiner" and n > 1:
        for t in range(1, n):
            if r_ops.random() < 0.7:
                start_after[t] = r_ops.choice([50, 400, 1500, 3000, 6000, 12000])
    policy = dict(r_sched.choice(POLICIES))
    if n > 3 and (policy["kind"] == "uniform" or policy.get("p", 0) >= 0.5):
        policy = {"kind": "sticky", "p": 0.1}  # switching at every line with many threads only burns time
    if n == 1:
        policy = {"kind": "sequential"}
    policy["est_steps"] = 1500 * n
    buggify = sorted(s for s in BUGGIFY_SITES if r_sched.random() < 0.35) if n > 1 else []
    deep = n > 1 and n_shared == 0 and r_sched.random() < DEEP_RATE
    return {
        "run_seed": run_seed,
        "shape": shape,
        "n": n,
        "threads": threads,
        "shared_dv": shared_dv,
        "shared_custom": shared_custom,
        "start_after": start_after,
        "policy": policy,
        "buggify": buggify,
        "deep": deep,
        "sched_seed": core.derive(run_seed, "sched-stream"),
    }


# --------------------------------------------------------------------------------------------
# executing a run (inside the forked child)
# --------------------------------------------------------------------------------------------

def _sig_exc(e: BaseException) -> str:
    msg = str(e).split("\n")[0][:80]
    return f"{type(e).__name__}:{msg}"


def execute(run: Dict[str, Any], golden: Dict[str, Any]) -> Dict[str, Any]:
    conv_mod = Z["conv"]
    Counting = Z["Counting"]
    lsp = Z["lsp"]
    n = run["n"]
    viol: List[Dict[str, str]] = []
    history: List[List[Any]] = []
    rec_limit0 = sys.getrecursionlimit()
    probes = {
        "overlap_resolve": 0,
        "iter_vs_eval": 0,
        "late_joiner": 0,
        "shared_user_concurrent": 0,
        "customise_before_get": 0,
        "burst_100": 0,
        "custom_then_other_used": 0,
        "reget": 0,
        "copy_of_earlier_converter": 0,
        "global_converter_handed_over": 0,
        "reregistered_300_times": 0,
        "whole_battery_on_one_converter": 0,
        "interrupt_delivered": 0,
        "interrupt_swallowed": 0,
        "interrupt_not_reached": 0,
        "forbid_extra_keys_config": 0,
        "extra_battery_used": 0,
        "dropped_and_collected": 0,
        "preused_user_converter": 0,
        "used_in_another_thread": 0,
        "clock_jumps": 0,
    }

    # model: identity -> customisation (None | 'pre:V' | 'post:V') and configuration (dv, fek)
    mode: Dict[int, Optional[str]] = {}
    shared: List[Any] = []
    cfgs: Dict[int, Tuple[bool, bool, str]] = {}
    for i, dv in enumerate(run["shared_dv"]):
        c = make_user(dv)
        c.sim_tag = f"shared{i}"
        cfgs[id(c)] = cfg_of(dv)
        if cfg_of(dv)[1]:
            probes["forbid_extra_keys_config"] += 1
        v_ = run["shared_custom"][i]
        if v_:
            v_ = v_ if isinstance(v_, str) else "position"
            customise(c, v_)
            mode[id(c)] = f"pre:{v_}"
            probes["customise_before_get"] += 1
        shared.append(c)

    def forget(c: Any) -> None:
        """The run drops its last reference to c: the model forgets the identity (ids may be reused)."""
        for lst in (keep_alive, registry):
            lst[:] = [x for x in lst if x is not c]
        mode.pop(id(c), None)
        cfgs.pop(id(c), None)

    def gold(c: Any) -> Dict[str, Any]:
        dv_, fek_, x_ = cfgs.get(id(c), (True, False, "-"))
        return golden[gkey(mode.get(id(c)), dv_, fek_, x_)]

    def kind_of(c: Any) -> str:
        dv_, fek_, x_ = cfgs.get(id(c), (True, False, "-"))
        return gkey(mode.get(id(c)), dv_, fek_, x_)
    keep_alive: List[Any] = list(shared)
    registry: List[Any] = []  # converters in order of (completed) creation, for the final sweep

    deep_files: List[str] = []
    if run.get("deep"):
        # swarm option: also pre-empt at source lines of the dependency modules that hold process-global
        # state touched during first use (attrs type resolution, typing's evaluation, cattrs code
        # generation and dispatch) — only in runs whose threads do not share a converter object
        import attr._funcs, cattrs.converters, cattrs.dispatch, cattrs.gen, cattrs.gen._shared

        deep_files = [m.__file__ for m in (attr._funcs, cattrs.converters, cattrs.dispatch, cattrs.gen, cattrs.gen._shared)]
    sched = Scheduler(
        n,
        run["policy"],
        run["sched_seed"],
        trace_dirs=[Z["pkg_dir"]],
        extra_trace_files=deep_files,
        buggify_calls=run["buggify"],
        start_after=run["start_after"],
        step_cap=run.get("step_cap", 8_000_000 if run.get("deep") else 3_000_000),
    )
    # locks created by lsprotocol modules from now on block in the scheduler, not in C
    import threading as _th

    real_Lock, real_RLock = _th.Lock, _th.RLock
    real_Event, real_Condition = _th.Event, _th.Condition

    def _pkg_caller() -> bool:
        f = sys._getframe(2)
        return f.f_code.co_filename.startswith(Z["pkg_dir"])

    def sim_Lock(*a: Any, **k: Any) -> Any:
        return SimLock(sched) if _pkg_caller() else real_Lock(*a, **k)

    def sim_RLock(*a: Any, **k: Any) -> Any:
        return SimLock(sched, reentrant=True) if _pkg_caller() else real_RLock(*a, **k)

    def sim_Event(*a: Any, **k: Any) -> Any:
        return SimEvent(sched) if _pkg_caller() else real_Event(*a, **k)

    def sim_Condition(lock: Any = None) -> Any:
        if _pkg_caller() or isinstance(lock, SimLock):
            return SimCondition(sched, lock if isinstance(lock, SimLock) else None)
        return real_Condition(lock)

    # module-level locks of the package (created at import time in the zygote) are swapped too
    for m in (Z["hooks"], Z["conv"], lsp):
        for k_, v_ in list(vars(m).items()):
            if isinstance(v_, type(real_Lock())):
                setattr(m, k_, SimLock(sched))
            elif isinstance(v_, type(real_RLock())):
                setattr(m, k_, SimLock(sched, reentrant=True))
            elif isinstance(v_, real_Event):
                ev_ = SimEvent(sched)
                ev_._flag = v_.is_set()
                setattr(m, k_, ev_)
            elif isinstance(v_, real_Condition):
                setattr(m, k_, SimCondition(sched))
    _th.Lock, _th.RLock, _th.Event, _th.Condition = sim_Lock, sim_RLock, sim_Event, sim_Condition

    # probes on switches -------------------------------------------------------------------
    import linecache

    hooks_file = os.path.join(Z["pkg_dir"], "_hooks.py")

    def in_resolve(site: Tuple) -> bool:
        site = sched.site_name(site)
        return len(site) >= 3 and site[2] in ("_resolve_forward_references", "_filter")

    def probe_cb(me: int, nxt: int, site: Tuple) -> None:
        live = [t for t in range(n) if sched.state[t] != "done"]
        inres = [t for t in live if in_resolve(sched.pos[t])]
        if len(inres) >= 2:
            probes["overlap_resolve"] += 1
            filt = [t for t in inres if sched.site_name(sched.pos[t])[2] == "_filter"]
            if filt:
                for t in inres:
                    if t in filt:
                        continue
                    src = linecache.getline(hooks_file, sched.site_name(sched.pos[t])[1])
                    if "resolve_types" in src:
                        probes["iter_vs_eval"] += 1
                        break

    sched.probe_cb = probe_cb
    published: Dict[int, Any] = {}
    active_shared: Dict[int, int] = {}
    get_finished = [0]
    any_custom = [False]

    import time as _time

    r_clock = core.rng(run["run_seed"], "clock")
    sim_now = [1_000_000.0]
    real_time_fns = (_time.time, _time.monotonic, _time.perf_counter, _time.time_ns, _time.monotonic_ns)
    _time.time = lambda: 1.7e9 + sim_now[0]
    _time.monotonic = lambda: sim_now[0]
    _time.perf_counter = lambda: sim_now[0]
    _time.time_ns = lambda: int((1.7e9 + sim_now[0]) * 1e9)
    _time.monotonic_ns = lambda: int(sim_now[0] * 1e9)

    def thread_fn(idx: int) -> None:
        slots: Dict[int, Any] = {}
        for oi, op in enumerate(run["threads"][idx]):
            kind = op[0]
            if r_clock.random() < 0.3:
                # the simulated clock jumps between operations: milliseconds, a minute, an hour, a day
                sim_now[0] += r_clock.choice([0.001, 0.5, 61.0, 3601.0, 86401.0])
                probes["clock_jumps"] += 1
            if kind in ("USE", "BUILD", "CUSTOM", "REGET", "REREG", "DROP", "FULLUSE") and op[1] not in slots:
                continue  # slot never created (minimised script): no-op
            sched.yield_point(("op", oi, kind))
            outcome: Any = None
            try:
                if kind == "GET":
                    s, how, arg = op[1], op[2], op[3]
                    if get_finished[0] and oi == 0:
                        probes["late_joiner"] += 1
                    if how == "fresh":
                        c = conv_mod.get_converter()
                        mode.setdefault(id(c), None)
                        cfgs.setdefault(id(c), (True, False, "-"))
                    elif how == "user":
                        base = make_user(arg)
                        if len(op) > 4:
                            for k_ in op[4]:
                                do_use(base, k_)  # outcome not judged: not an lsprotocol converter yet
                            probes["preused_user_converter"] += 1
                        cfgs[id(base)] = cfg_of(arg)
                        if cfg_of(arg)[1]:
                            probes["forbid_extra_keys_config"] += 1
                        c = conv_mod.get_converter(base)
                        cfgs.setdefault(id(c), cfg_of(arg))
                        if c is not base:
                            mode.setdefault(id(c), None)
                        mode.setdefault(id(base), None)
                    elif how == "global":
                        base = Z["cattrs"].global_converter
                        cfgs.setdefault(id(base), (True, False, "-"))
                        probes["global_converter_handed_over"] += 1
                        c = conv_mod.get_converter(base)
                        cfgs.setdefault(id(c), (True, False, "-"))
                        if c is not base:
                            mode.setdefault(id(c), None)
                        mode.setdefault(id(base), None)
                    elif how == "copy":
                        src = slots.get(arg[0])
                        if src is None or mode.get(id(src)) is not None:
                            continue  # nothing to copy (minimised script) or a customised source: no-op
                        sx = cfgs.get(id(src), (True, False, "-"))[2]
                        cdv, cfek = (bool(arg[1]), bool(arg[2])) if sx == "-" else (True, False)
                        base = src.copy(detailed_validation=cdv, forbid_extra_keys=cfek)
                        cfgs[id(base)] = (cdv, cfek, sx)
                        probes["copy_of_earlier_converter"] += 1
                        c = conv_mod.get_converter(base)
                        cfgs.setdefault(id(c), (cdv, cfek, sx))
                        if c is not base:
                            mode.setdefault(id(c), None)
                        mode.setdefault(id(base), None)
                    else:
                        base = shared[arg]
                        active_shared[arg] = active_shared.get(arg, 0) + 1
                        if active_shared[arg] > 1:
                            probes["shared_user_concurrent"] += 1
                        try:
                            c = conv_mod.get_converter(base)
                        finally:
                            active_shared[arg] -= 1
                        mode.setdefault(id(base), None)
                        if c is not base:
                            mode.setdefault(id(c), mode[id(base)])
                            cfgs.setdefault(id(c), cfgs.get(id(base), (True, False, "-")))
                    keep_alive.append(c)
                    registry.append(c)
                    slots[s] = c
                    get_finished[0] += 1
                    outcome = ("got",)
                elif kind == "GETX":
                    s, how, arg, k_, exn = op[1], op[2], op[3], op[4], op[5]
                    base = make_user(arg) if how == "user" else None
                    exc_cls = {"MemoryError": MemoryError, "RecursionError": RecursionError, "KeyboardInterrupt": KeyboardInterrupt}[exn]
                    armed = sched.arm(idx, k_, exc_cls)
                    try:
                        c = conv_mod.get_converter(base) if base is not None else conv_mod.get_converter()
                    except (MemoryError, RecursionError, KeyboardInterrupt) as e_:
                        if not sched.disarm(idx):
                            raise  # not ours: an observation like any other
                        probes["interrupt_delivered"] += 1
                        del e_
                        outcome = ("interrupted", exn)
                    else:
                        if armed and sched.disarm(idx):
                            probes["interrupt_swallowed"] += 1  # delivered, yet the call returned: judged like any converter
                        else:
                            probes["interrupt_not_reached"] += 1
                        cf_ = cfg_of(arg) if how == "user" else (True, False, "-")
                        if base is not None:
                            cfgs[id(base)] = cf_
                            mode.setdefault(id(base), None)
                        cfgs.setdefault(id(c), cf_)
                        mode.setdefault(id(c), None)
                        keep_alive.append(c)
                        registry.append(c)
                        slots[s] = c
                        get_finished[0] += 1
                        outcome = ("got",)
                elif kind == "REGET":
                    c = slots[op[1]]
                    c2 = conv_mod.get_converter(c)
                    keep_alive.append(c2)
                    if c2 is not c:
                        mode.setdefault(id(c2), mode.get(id(c)))
                        cfgs.setdefault(id(c2), cfgs.get(id(c), (True, False, "-")))
                    slots[op[1]] = c2
                    probes["reget"] += 1
                    outcome = ("got",)
                elif kind == "REREG":
                    c = slots[op[1]]
                    for _i in range(op[2]):
                        c2 = conv_mod.get_converter(c)
                        if c2 is not c:
                            mode.setdefault(id(c2), mode.get(id(c)))
                            cfgs.setdefault(id(c2), cfgs.get(id(c), (True, False, "-")))
                            keep_alive.append(c2)
                            c = c2
                    slots[op[1]] = c
                    if op[2] >= 300:
                        probes["reregistered_300_times"] += 1
                    outcome = ("got",)
                elif kind == "DROP":
                    c = slots.pop(op[1])
                    if not any(v is c for v in slots.values()) and not any(v is c for v in shared):
                        forget(c)
                        del c
                        gc.collect()
                        probes["dropped_and_collected"] += 1
                    outcome = ("dropped",)
                elif kind == "BURST":
                    s, m = op[1], op[2]
                    collect = len(op) > 3 and op[3]
                    c = None
                    for _i in range(m):
                        c = conv_mod.get_converter()
                        if not collect:
                            keep_alive.append(c)
                    if collect:
                        keep_alive.append(c)
                        gc.collect()
                        probes["dropped_and_collected"] += 1
                    mode.setdefault(id(c), None)
                    cfgs.setdefault(id(c), (True, False, "-"))
                    registry.append(c)
                    slots[s] = c
                    if m >= 100:
                        probes["burst_100"] += 1
                    outcome = ("got",)
                elif kind == "CUSTOM":
                    c = slots[op[1]]
                    variant = op[2] if len(op) > 2 else "position"
                    if mode.get(id(c)) is None:
                        customise(c, variant)
                        any_custom[0] = True
                        mode[id(c)] = f"post:{variant}"
                    outcome = ("customised",)
                elif kind == "USE":
                    c = slots[op[1]]
                    if any_custom[0] and mode.get(id(c)) is None:
                        probes["custom_then_other_used"] += 1
                    if op[2] >= N_BASE_STRUCT:
                        probes["extra_battery_used"] += 1
                    outcome = do_use(c, op[2])
                    exp = gold(c)["use"][op[2]]
                    if tuple(exp) != tuple(outcome):
                        nm = battery.STRUCT[op[2]][0]
                        viol.append(
                            {
                                "sig": f"use-differs:{exp[0]}->{outcome[0]}",
                                "msg": f"thread {idx} op {oi} USE({nm}) on a [{kind_of(c)}] converter gave "
                                f"{outcome} but a lone converter of that kind gives {tuple(exp)}",
                            }
                        )
                elif kind == "BUILD":
                    c = slots[op[1]]
                    outcome = do_build(c, op[2])
                    exp = gold(c)["build"][op[2]]
                    if tuple(exp) != tuple(outcome):
                        nm = battery.BUILD[op[2]][0]
                        viol.append(
                            {
                                "sig": f"build-differs:{exp[0]}->{outcome[0]}",
                                "msg": f"thread {idx} op {oi} BUILD({nm}) on a [{kind_of(c)}] converter gave {outcome}, a lone converter of that kind gives {tuple(exp)}",
                            }
                        )
                elif kind == "FULLUSE":
                    c = slots[op[1]]
                    bad = 0
                    skip_big = set(battery.BIG)
                    g_use = gold(c)["use"]
                    for k_ in range(len(battery.STRUCT)):
                        if k_ in skip_big:
                            continue
                        out_ = do_use(c, k_)
                        if tuple(g_use[k_]) != tuple(out_):
                            bad += 1
                            if bad == 1:
                                viol.append({"sig": f"use-differs:{g_use[k_][0]}->{out_[0]}",
                                             "msg": f"thread {idx} op {oi} whole battery on a [{kind_of(c)}] converter: {battery.STRUCT[k_][0]} gave {out_} but a lone converter of that kind gives {tuple(g_use[k_])}"})
                    probes["whole_battery_on_one_converter"] += 1
                    outcome = ("full", bad)
                elif kind == "PUBLISH":
                    c = slots.get(op[1])
                    if c is not None and mode.get(id(c)) is None:
                        published[op[2]] = c
                    outcome = ("published",)
                elif kind == "USEG":
                    c = published.get(op[1])
                    if c is None:
                        outcome = ("not-published-yet",)
                    else:
                        probes["used_in_another_thread"] += 1 if op[1] != idx else 0
                        outcome = do_use(c, op[2])
                        exp = gold(c)["use"][op[2]]
                        if tuple(exp) != tuple(outcome):
                            nm = battery.STRUCT[op[2]][0]
                            viol.append({"sig": f"use-differs:{exp[0]}->{outcome[0]}",
                                         "msg": f"thread {idx} op {oi} USE({nm}) of a [{kind_of(c)}] converter created by thread {op[1]} gave {outcome} but a lone converter of that kind gives {tuple(exp)}"})
                elif kind == "YIELD":
                    outcome = ("yield",)
            except Exception as e:  # an op of the system under test raised: that is an observation
                if kind in ("GET", "GETX", "REGET", "REREG", "BURST"):
                    tb = traceback.extract_tb(e.__traceback__)
                    where = ""
                    for fr in reversed(tb):
                        if fr.filename.startswith(Z["pkg_dir"]):
                            where = f"{os.path.basename(fr.filename)}:{fr.name}"
                            break
                    viol.append(
                        {
                            "sig": f"create-raised:{_sig_exc(e)}",
                            "msg": f"thread {idx} op {oi} {op}: get_converter raised {core.fmt_exc(e)} at {where}",
                        }
                    )
                    outcome = ("raised", type(e).__name__)
                    history.append([idx, oi, kind, list(outcome), sched.steps])
                    return  # this thread cannot go on without its converter
                elif kind == "CUSTOM":
                    raise
                else:
                    raise
            history.append([idx, oi, kind, list(outcome) if outcome else None, sched.steps])

    fns = [thread_fn] * n
    harness: Optional[str] = None
    try:
        sched.run(fns, wall_timeout=run.get("wall_timeout", 240.0))
    except TimeoutError as e:
        harness = f"wall timeout: {e}"
    finally:
        _th.Lock, _th.RLock, _th.Event, _th.Condition = real_Lock, real_RLock, real_Event, real_Condition
        _time.time, _time.monotonic, _time.perf_counter, _time.time_ns, _time.monotonic_ns = real_time_fns
    for i, e in enumerate(sched.errors):
        if e is not None:
            harness = f"driver exception in thread {i}: {core.fmt_exc(e)}"
    if isinstance(sched.abort, Deadlock):
        viol.append({"sig": "deadlock", "msg": str(sched.abort)})
    elif isinstance(sched.abort, StepCap):
        # bounded liveness: with a fair scheduler (a thread that ran 100 000 consecutive steps sits out 30 000
        # steps if another is runnable) every script of a correct tree ends within a small fraction of the
        # cap; reaching it means threads keep running without finishing (livelock / unbounded wait)
        where = sorted({str(sched.site_name(sched.pos[t])[:3]) for t in range(n) if sched.state[t] != "done"})
        viol.append({"sig": "no-progress-within-step-cap", "msg": f"{sched.abort}; unfinished threads were last seen at {where[:4]}"})

    # end-of-run isolation sweep: every converter created in this run, in creation order, must still
    # agree with the golden of its mode on a small sample (creating/customising later ones must not
    # have altered earlier ones).  Runs sequentially, untraced, after all threads are done.
    # interpreter-wide state that changes the behaviour of every converter must be as it was
    try:
        import attrs as _attrs

        if _attrs.validators.get_disabled():
            viol.append({"sig": "global-state:attrs-validators-disabled", "msg": "after the run attrs validators are globally disabled (every converter now accepts invalid values)"})
    except Exception:
        pass
    if sys.getrecursionlimit() != rec_limit0:
        viol.append({"sig": "global-state:recursion-limit", "msg": f"recursion limit changed from {rec_limit0} to {sys.getrecursionlimit()}"})
    swept = 0
    if harness is None and sched.abort is None:
        r_sweep = core.rng(run["run_seed"], "sweep")
        hm0_ = hm_start()
        ks = [r_sweep.randrange(hm0_) for _ in range(4)] + [r_sweep.randrange(hm0_, len(battery.STRUCT)) for _ in range(3 if hm0_ < len(battery.STRUCT) else 0)]
        seen_ids = set()
        for c in registry[:16]:
            if id(c) in seen_ids:
                continue
            seen_ids.add(id(c))
            md = kind_of(c)
            for k in ks:
                out = do_use(c, k)
                exp = gold(c)["use"][k]
                swept += 1
                if tuple(exp) != tuple(out):
                    nm = battery.STRUCT[k][0]
                    viol.append(
                        {
                            "sig": f"sweep-differs:{exp[0]}->{out[0]}",
                            "msg": f"after the run, a [{md}] converter gives {out} for {nm}; a lone converter of that kind gives {tuple(exp)}",
                        }
                    )
    return {
        "run_seed": run["run_seed"],
        "violations": viol,
        "harness": harness,
        "steps": sched.steps,
        "switches": sched.switches,
        "digest": core.digest([sched.digest(), history]),
        "sched_digest": sched.digest(),
        "decisions": sched.decisions,
        "probes": probes,
        "switch_sites": sched.switch_sites,
        "n": n,
        "shape": run["shape"],
        "policy": run["policy"]["kind"],
        "ops": sum(len(t) for t in run["threads"]),
        "deep": bool(run.get("deep")),
        "forced_switches": sched.forced_switches,
        "swept": swept,
        "history": history[:40],
    }


# --------------------------------------------------------------------------------------------
# fork plumbing (inside a pool worker = zygote)
# --------------------------------------------------------------------------------------------

def _fork_call(fn: Any, args: Tuple, timeout: float) -> Any:
    r, w = os.pipe()
    pid = os.fork()
    if pid == 0:
        code = 0
        try:
            os.close(r)
            gc.disable()
            import faulthandler

            faulthandler.dump_traceback_later(timeout + 5, exit=True)
            try:
                res = {"ok": fn(*args)}
            except BaseException as e:  # harness bug
                res = {"exc": "".join(traceback.format_exception(type(e), e, e.__traceback__))[-3000:]}
            data = json.dumps(res, default=str).encode()
            off = 0
            while off < len(data):
                off += os.write(w, data[off : off + 65536])
            os.close(w)
        except BaseException:
            code = 3
        finally:
            os._exit(code)
    os.close(w)
    chunks: List[bytes] = []
    deadline = time.monotonic() + timeout
    timed_out = False
    while True:
        left = deadline - time.monotonic()
        if left <= 0:
            timed_out = True
            break
        rl, _, _ = select.select([r], [], [], min(left, 1.0))
        if rl:
            b = os.read(r, 1 << 20)
            if not b:
                break
            chunks.append(b)
    os.close(r)
    if timed_out:
        try:
            os.kill(pid, signal.SIGKILL)
        except ProcessLookupError:
            pass
        os.waitpid(pid, 0)
        raise core.HarnessError(f"forked run exceeded {timeout}s wall clock")
    _, status = os.waitpid(pid, 0)
    if not chunks:
        raise core.HarnessError(f"forked run died without a result (status {status})")
    res = json.loads(b"".join(chunks))
    if "exc" in res:
        raise core.HarnessError("exception in forked run:\n" + res["exc"])
    return res["ok"]


def worker_run(task: Dict[str, Any]) -> Dict[str, Any]:
    """Pool task: one simulated run (fork of the zygote)."""
    try:
        golden = golden_for(needed_keys(task))
        res = _fork_call(execute, (task, golden), task.get("wall_timeout", 240.0) + 30)
        res["golden_digest"] = core.digest(sorted(golden))
        res["pid"] = os.getpid()
        return res
    except core.HarnessError as e:
        return {"run_seed": task.get("run_seed"), "harness": str(e), "violations": [], "pid": os.getpid()}


# --------------------------------------------------------------------------------------------
# check driver
# --------------------------------------------------------------------------------------------

TIERS = {
    # runs, determinism re-run sample, wall budget (s) for the main sweep
    "quick": {"runs": 800, "det": 48, "budget": 90.0, "extras": 200, "sweep": 160},
    "thorough": {"runs": 40000, "det": 600, "budget": 2400.0, "extras": 400, "sweep": 10**9},
}


def _sigs(res: Dict[str, Any]) -> List[str]:
    return sorted({v["sig"] for v in res.get("violations", [])})


def sweep_tasks(seed: int, points: int) -> Tuple[List[Dict[str, Any]], Dict[str, Any]]:
    """Systematic part: two threads make their first get_converter() call and use the converter;
    thread 0 is pre-empted exactly once, after k of its steps, for k on an even grid over its whole
    script (every line of forward-reference resolution and hook registration is a step), thread 1 then
    runs to completion, thread 0 resumes.  This is the window of defect F1 enumerated rather than
    sampled; the mirrored schedule (thread 1 first) is the same by symmetry of the scripts."""
    names = {nm: i for i, (nm, _t, _j) in enumerate(battery.STRUCT)}
    ka, kb = names.get("caps-decl-reg", 0), names.get("publish-diags", 1)
    base = {"shape": "sweep1", "n": 2, "threads": [[["GET", 0, "fresh", None], ["USE", 0, ka]], [["GET", 0, "fresh", None], ["USE", 0, kb]]],
            "shared_dv": [], "shared_custom": [], "start_after": [0, 0], "buggify": [], "sched_seed": 1}
    cal = dict(base, run_seed=core.derive(seed, PROP, "sweep-cal"), policy={"kind": "trace", "trace": [[0, 10**9], [1, 10**9]]})
    ((_, res),) = core.run_pool(worker_run, [cal], workers=1, per_task_timeout=300.0)
    if res.get("harness") or not res.get("decisions"):
        raise core.HarnessError(f"sweep calibration failed: {res.get('harness')}")
    t0_steps = res["decisions"][0][1]
    stride = max(1, t0_steps // max(1, points))
    tasks = []
    for k in range(0, t0_steps + 1, stride):
        tasks.append(dict(base, run_seed=core.derive(seed, PROP, "sweep", k), policy={"kind": "trace", "trace": [[0, k], [1, 10**9], [0, 10**9]]}, sweep_k=k))
    return tasks, {"thread0_steps": t0_steps, "stride": stride, "points": len(tasks)}


def _run_local(run: Dict[str, Any]) -> Dict[str, Any]:
    return worker_run(run)


def minimise(run: Dict[str, Any], res: Dict[str, Any], sig: str, log: Any) -> Tuple[Dict[str, Any], Dict[str, Any]]:
    """Shrink ops (under the seeded policy), then fix the explicit decision trace and shrink that
    (fewer context switches), while the same signature persists."""
    tries = [0]

    def fails(r: Dict[str, Any]) -> Optional[Dict[str, Any]]:
        tries[0] += 1
        out = _run_local(r)
        return out if sig in _sigs(out) and not out.get("harness") else None

    best_run, best_res = run, res
    # 1. drop whole threads (keep at least one)
    changed = True
    while changed and best_run["n"] > 1 and tries[0] < 30:
        changed = False
        for t in range(best_run["n"]):
            cand = dict(best_run)
            cand["threads"] = [ops for i, ops in enumerate(best_run["threads"]) if i != t]
            cand["start_after"] = [x for i, x in enumerate(best_run["start_after"]) if i != t]
            cand["n"] = best_run["n"] - 1
            if cand["n"] == 1:
                cand["policy"] = {"kind": "sequential", "est_steps": 1500}
            out = fails(cand)
            if out:
                best_run, best_res, changed = cand, out, True
                break
    # 2. drop ops
    flat = [(t, i) for t, ops in enumerate(best_run["threads"]) for i in range(len(ops))]

    def with_ops(keep: List[Tuple[int, int]]) -> Dict[str, Any]:
        ks = set(keep)
        cand = dict(best_run)
        cand["threads"] = [
            [op for i, op in enumerate(ops) if (t, i) in ks] for t, ops in enumerate(best_run["threads"])
        ]
        return cand

    memo: Dict[str, Any] = {}

    def f_ops(keep: List[Tuple[int, int]]) -> bool:
        if tries[0] > 80:
            return False
        out = fails(with_ops(keep))
        if out:
            memo["res"] = out
        return bool(out)

    kept = core.ddmin(flat, f_ops, budget=40)
    cand = with_ops(kept)
    out = fails(cand)
    if out:
        best_run, best_res = cand, out
    # 3. fixed start, no buggify, explicit trace
    for simplify in ({"start_after": [0] * best_run["n"]}, {"buggify": []}):
        cand = dict(best_run)
        cand.update(simplify)
        out = fails(cand)
        if out:
            best_run, best_res = cand, out
    if best_run["n"] > 1:
        cand = dict(best_run)
        cand["policy"] = {"kind": "trace", "trace": best_res["decisions"]}
        out = fails(cand)
        if out:
            best_run, best_res = cand, out
            segs = [list(s) for s in best_res["decisions"]]

            def f_tr(sub: List[List[int]]) -> bool:
                if tries[0] > 150:
                    return False
                c2 = dict(best_run)
                c2["policy"] = {"kind": "trace", "trace": sub}
                return bool(fails(c2))

            segs2 = core.ddmin(segs, f_tr, budget=50)
            c2 = dict(best_run)
            c2["policy"] = {"kind": "trace", "trace": segs2}
            out = fails(c2)
            if out:
                # re-record the canonical trace of the minimised execution
                c3 = dict(c2)
                c3["policy"] = {"kind": "trace", "trace": out["decisions"]}
                out3 = fails(c3)
                if out3:
                    best_run, best_res = c3, out3
                else:
                    best_run, best_res = c2, out
    log(f"minimised in {tries[0]} executions: {best_run['n']} thread(s), "
        f"{sum(len(t) for t in best_run['threads'])} ops, {best_res.get('switches')} context switches")
    return best_run, best_res


def _minimise_task(arg: Tuple[Dict[str, Any], Dict[str, Any], str]) -> Tuple[Dict[str, Any], Dict[str, Any], str]:
    logs: List[str] = []
    mrun, mres = minimise(arg[0], arg[1], arg[2], logs.append)
    return mrun, mres, "; ".join(logs)


def replay_file(path: str) -> int:
    """Re-run a replay file in this (fresh) process; exit 1 with the same VIOLATION line if it
    reproduces, 0 if not."""
    body = json.loads(open(path).read())
    zygote_init(str(core.repo_root()))
    install_extras(body.get("battery_extra") or [])
    res = worker_run(body["run"])
    sigs = _sigs(res)
    print(f"[C19] replay {path}: signatures {sigs} digest {res.get('digest')}")
    if res.get("harness"):
        print(f"HARNESS-ERROR: property=C19 {res['harness']}")
        return core.EXIT_HARNESS
    if body["signature"] in sigs:
        same = res.get("digest") == body.get("digest")
        print(f"  reproduced (event-log digest {'identical' if same else 'DIFFERENT'})")
        print(f"VIOLATION property=C19 replay={path}")
        return core.EXIT_VIOLATION
    print("  did not reproduce")
    return core.EXIT_OK


def fresh_digests(seeds: List[int], tier: str, hashseed: str) -> Dict[str, str]:
    """Digests of the given run seeds computed in a fresh interpreter under another harness hash seed."""
    import subprocess
    import tempfile

    env = dict(os.environ)
    env["PYTHONHASHSEED"] = hashseed
    env["VERIF_WORKERS"] = "4"
    fd, path = tempfile.mkstemp(prefix="lspv-digests-", suffix=".json", dir=str(core.scratch_base()))
    try:
        with os.fdopen(fd, "w") as f:
            json.dump({"tier": tier, "seeds": seeds, "extras": [list(x) for x in battery.STRUCT[N_BASE_STRUCT:]]}, f)
        p = subprocess.run([sys.executable, "-m", "sim.c19", "--digests", path], cwd=str(core.VERIF), env=env, capture_output=True, text=True, timeout=900)
    finally:
        try:
            os.unlink(path)
        except OSError:
            pass
    if p.returncode != 0:
        raise core.HarnessError(f"fresh-interpreter digest run failed: {p.stderr[-800:]}")
    return json.loads(p.stdout.strip().splitlines()[-1])


def main(argv: List[str]) -> int:
    import argparse

    ap = argparse.ArgumentParser(prog="check C19")
    ap.add_argument("--tier", default=os.environ.get("VERIF_TIER") or "quick", choices=list(TIERS))
    ap.add_argument("--replay")
    ap.add_argument("--runs", type=int)
    ap.add_argument("--budget", type=float)
    ap.add_argument("--digests", metavar="REQUEST_FILE")
    ap.add_argument("--no-selftest", action="store_true")
    a = ap.parse_args(argv)

    if a.replay:
        return replay_file(a.replay)

    zygote_init(str(core.repo_root()))  # parent is the zygote of all pool workers (fork)

    if a.digests:
        req = json.loads(open(a.digests).read())
        install_extras(req["extras"])
        tier, seeds = req["tier"], [int(x) for x in req["seeds"]]
        tasks = [gen_run(s, tier) for s in seeds]
        res = core.run_pool(worker_run, tasks, workers=core.n_workers())
        print(json.dumps({str(seeds[i]): r.get("digest") for i, r in res}))
        return 0

    tier = a.tier
    cfg = dict(TIERS[tier])
    if a.runs:
        cfg["runs"] = a.runs
    if a.budget:
        cfg["budget"] = a.budget
    seed = core.base_seed(20261003)
    rep = core.Report(PROP, tier, seed)
    rep.log(f"VERIF_SEED={seed} tier={tier} runs<={cfg['runs']} workers={core.n_workers()} repo={core.repo_root()}")

    extras, extras_note = generate_extras(core.derive(seed, PROP, "extras"), cfg.get("extras", 60))
    hm_items, hm_info, hm_note = generate_hookmatrix(cfg.get("hm", 0))
    install_extras(list(extras) + list(hm_items))
    rep.log(f"battery: {N_BASE_STRUCT} fixed structure inputs + {len(extras)} vectors from the tree's testdata plugin"
            + (f" ({extras_note})" if extras_note else "") + f" + {len(hm_items)} hook-matrix inputs over {hm_info.get('hooked_types', 0)} hooked types"
            + (f" ({hm_note})" if hm_note else "") + f", {len(battery.BUILD)} constructor recipes")
    # ---- phase 0: reference outcomes of lone converters, one forked child per kind, in parallel -------
    t_start = time.monotonic()
    config_viol: List[Dict[str, str]] = []
    try:
        keys = all_golden_keys()
        rev_keys = ["rev:" + keys[0], "rev:" + gkey(None, False, True), "rev:" + gkey("pre:position", True, False)]
        outs = [r for _, r in core.run_pool(golden_task, keys + keys[:1] + rev_keys, per_task_timeout=400.0)]
        gold_all = dict(outs[: len(keys)])
        Z["golden"] = gold_all  # inherited by the workers of the pools forked below
        again = outs[len(keys)][1]
        for rk, rv in outs[len(keys) + 1:]:
            for part, names in (("use", [b[0] for b in battery.STRUCT]), ("build", [b[0] for b in battery.BUILD])):
                for i, (a_, b_) in enumerate(zip(gold_all[rk[4:]][part], rv[part])):
                    if tuple(a_) != tuple(b_):
                        config_viol.append({"sig": f"order-differs:{a_[0]}->{b_[0]}",
                                            "msg": f"a lone [{rk[4:]}] converter gives {tuple(a_)} for {names[i]} when asked in battery order but {tuple(b_)} when asked in the opposite order"})
                        break
        if core.digest(again) != core.digest(gold_all[keys[0]]):
            rep.harness_error("golden outcomes are not reproducible (two lone fresh converters disagree with each other)")
        # detailed validation on/off must not change verdicts or values (exception types may differ)
        strip = lambda o: tuple(o[:1]) if o[0] == "err" else tuple(o)  # noqa: E731
        for k1 in keys:
            if "|dv=1|" not in k1 or k1.replace("|dv=1|", "|dv=0|") not in gold_all:
                continue
            k0 = k1.replace("|dv=1|", "|dv=0|")
            for part, names in (("use", [b[0] for b in battery.STRUCT]), ("build", [b[0] for b in battery.BUILD])):
                for i, (a_, b_) in enumerate(zip(gold_all[k1][part], gold_all[k0][part])):
                    if strip(a_) != strip(b_):
                        config_viol.append({"sig": f"config-differs:detailed_validation:{a_[0]}->{b_[0]}",
                                            "msg": f"a lone [{k1}] converter gives {tuple(a_)} for {names[i]}, a lone [{k0}] converter gives {tuple(b_)}"})
                        break
        rep.log(f"phase 0: {len(keys)} kinds of lone reference converters in {time.monotonic() - t_start:.1f}s")
    except core.HarnessError as e:
        rep.harness_error(f"golden phase: {e}")
    run_seeds = [core.derive(seed, PROP, i) for i in range(cfg["runs"])]
    sweep: List[Dict[str, Any]] = []
    sweep_info: Dict[str, Any] = {}
    try:
        sweep, sweep_info = sweep_tasks(seed, cfg["sweep"])
    except core.HarnessError as e:
        rep.harness_error(str(e))
    deadline = t_start + cfg["budget"]
    first_fail: Dict[str, Tuple[Dict[str, Any], Dict[str, Any]]] = {}
    results: List[Dict[str, Any]] = []

    def tasks_iter():
        for s in run_seeds:
            yield gen_run(s, tier)

    task_by_seed: Dict[int, Dict[str, Any]] = {}

    def gen_and_remember():
        for t in tasks_iter():
            task_by_seed[t["run_seed"]] = t
            yield t

    def gen_sweep():
        for t in sweep:
            task_by_seed[t["run_seed"]] = t
            yield t

    sites: Dict[str, int] = {}
    det_keep = set(run_seeds[: cfg["det"] * 2])
    counters = {"buggify_runs": 0}

    def on_result(i: int, res: Dict[str, Any]) -> bool:
        t_ = task_by_seed.get(res.get("run_seed"))
        if t_ is not None:
            counters["buggify_runs"] += 1 if t_.get("buggify") else 0
            if not res.get("violations") and res.get("run_seed") not in det_keep and len(results) > 8:
                task_by_seed.pop(res["run_seed"], None)  # not needed again
        # keep the parent small: 40 000+ results with full decision traces and histories are tens of GB
        for k_, v_ in (res.get("switch_sites") or {}).items():
            sites[k_] = sites.get(k_, 0) + v_
        res["first_decisions"] = (res.get("decisions") or [])[:12]
        if not res.get("violations"):
            for heavy in ("decisions", "history", "switch_sites"):
                res.pop(heavy, None)
        results.append(res)
        if res.get("harness"):
            rep.harness_error(f"run_seed={res.get('run_seed')}: {res['harness']}")
            return len(rep.harness_errors) >= 3
        for v in res.get("violations", []):
            if v["sig"] not in first_fail:
                first_fail[v["sig"]] = (task_by_seed[res["run_seed"]], res)
        # stop early once several distinct unknown signatures were seen
        unknown = [s for s in first_fail if rep.kf.match(PROP, s) is None]
        return len(unknown) >= 4

    try:
        # systematic single-pre-emption sweep first (always completes), then the seeded search under the budget
        core.run_pool(worker_run, gen_sweep(), on_result=on_result, per_task_timeout=600.0)
        if len([s_ for s_ in first_fail if rep.kf.match(PROP, s_) is None]) < 4 and len(rep.harness_errors) < 3:
            core.run_pool(worker_run, gen_and_remember(), on_result=on_result, deadline=time.monotonic() + cfg["budget"], per_task_timeout=600.0)
    except core.HarnessError as e:
        rep.harness_error(str(e))

    ok_results = [r for r in results if not r.get("harness")]
    for v in config_viol[:3]:
        rep.add_violation(v["sig"], v["msg"], {"run_seed": 0, "run": None, "note": "observed on lone converters in phase 0; re-run the check to reproduce"})

    # ---- determinism self-test ---------------------------------------------------------------
    det_checked = det_mismatch = 0
    fresh_checked = 0
    if not a.no_selftest and ok_results and not rep.harness_errors:
        by_seed = {r["run_seed"]: r for r in ok_results}
        sample = [s for s in run_seeds if s in by_seed and s in task_by_seed][: cfg["det"]]
        try:
            again = core.run_pool(
                worker_run, [task_by_seed[s] for s in sample], workers=max(2, core.n_workers() // 3), per_task_timeout=600.0
            )
            for i, r in again:
                det_checked += 1
                # a violation seen in the second execution is an observation of the tree under test like
                # any other (e.g. behaviour that depends on recycled memory addresses shows only sometimes)
                for v in r.get("violations", []):
                    first_fail.setdefault(v["sig"], (task_by_seed[sample[i]], r))
                if r.get("harness"):
                    rep.harness_error(f"determinism re-run of run_seed={sample[i]} failed in the harness: {r['harness']}")
                    continue
                if r.get("digest") != by_seed[sample[i]].get("digest"):
                    det_mismatch += 1
                    extra = "; ".join(v["msg"][:300] for v in r.get("violations", [])[:1]) or f"harness={r.get('harness')}"
                    rep.harness_error(
                        f"determinism: run_seed={sample[i]} shape={task_by_seed[sample[i]].get('shape')} gave digest {by_seed[sample[i]].get('digest')} then {r.get('digest')} [{extra}]",
                        soft=True,
                    )
            fs = sample[: max(8, cfg["det"] // 4)]
            fd = fresh_digests(fs, tier, "5")
            for s in fs:
                fresh_checked += 1
                if fd.get(str(s)) != by_seed[s].get("digest"):
                    det_mismatch += 1
                    rep.harness_error(
                        f"determinism (fresh interpreter, PYTHONHASHSEED=5): run_seed={s} {by_seed[s].get('digest')} vs {fd.get(str(s))}", soft=True
                    )
        except core.HarnessError as e:
            rep.harness_error(str(e))

    # ---- violations: minimise (in parallel, single-threaded pool workers), confirm in a fresh process, report
    unknown_sigs = [sg for sg in sorted(first_fail) if rep.kf.match(PROP, sg) is None]
    minimised: Dict[str, Tuple[Dict[str, Any], Dict[str, Any]]] = {}
    to_min = unknown_sigs[:3]
    if to_min:
        try:
            outs = core.run_pool(_minimise_task, [(first_fail[sg][0], first_fail[sg][1], sg) for sg in to_min], workers=len(to_min), per_task_timeout=1500.0)
            for i, (mrun, mres, mlog) in outs:
                minimised[to_min[i]] = (mrun, mres)
                rep.log(f"{to_min[i]}: {mlog}")
        except core.HarnessError as e:
            rep.harness_error(f"minimiser: {e}")
    for sig, (task, res) in sorted(first_fail.items()):
        msg = next(v["msg"] for v in res["violations"] if v["sig"] == sig)
        if rep.kf.match(PROP, sig) is not None:
            rep.add_violation(sig, msg, {})
            continue
        mrun, mres = minimised.get(sig, (task, res))
        msg = next((v["msg"] for v in mres["violations"] if v["sig"] == sig), msg)
        replay = {
            "run_seed": task["run_seed"],
            "verif_seed": seed,
            "run": mrun,
            "original_run": task,
            "minimised": sig in minimised,
            "digest": mres.get("digest"),
            "decisions": mres.get("decisions"),
            "history": mres.get("history"),
            "battery_extra": [list(x) for x in battery.STRUCT[N_BASE_STRUCT:]],
            "how_to_replay": "cd /verif && ./check C19 --replay <this file>",
        }
        if rep.add_violation(sig, msg, replay):
            v = rep.violations[-1]
            path = rep.write_replay(v)
            v["replay_path"] = path
            # must reproduce from the file in a fresh process
            import subprocess

            p = subprocess.run([sys.executable, "-m", "sim.c19", "--replay", str(path)], cwd=str(core.VERIF),
                               capture_output=True, text=True, timeout=300)
            if p.returncode != core.EXIT_VIOLATION:
                rep.harness_error(f"replay file {path} did not reproduce in a fresh process: rc={p.returncode} {p.stdout[-300:]}", soft=True)

    # ---- evidence --------------------------------------------------------------------------------
    wall = time.monotonic() - t_start
    multi = [r for r in ok_results if r.get("n", 1) >= 2 and r.get("switches", 0) >= 1]
    distinct = len({r["sched_digest"] for r in multi})
    probes: Dict[str, int] = {}
    for r in ok_results:
        for k, v in r.get("probes", {}).items():
            probes[k] = probes.get(k, 0) + (1 if v else 0)
    hooks_lines = sorted({int(k.split(":")[1]) for k in sites if k.startswith("_hooks.py:")})
    shapes: Dict[str, int] = {}
    pols: Dict[str, int] = {}
    for r in ok_results:
        shapes[r.get("shape", "?")] = shapes.get(r.get("shape", "?"), 0) + 1
        pols[r.get("policy", "?")] = pols.get(r.get("policy", "?"), 0) + 1
    samples = []
    for r in ok_results[:3]:
        t = task_by_seed.get(r["run_seed"])
        if t:
            samples.append({"run_seed": t["run_seed"], "shape": t["shape"], "policy": t["policy"], "buggify": t["buggify"],
                            "start_after": t["start_after"], "threads": t["threads"], "steps": r["steps"], "switches": r["switches"],
                            "first_decisions": r.get("first_decisions")})
    coverage = {
        "evaluations": len(ok_results),
        "distinct_nontrivial": distinct,
        "rule": "one evaluation = one simulated run (fork of a warm zygote, scripted threads under the seeded scheduler, "
                "outcomes compared with a lone fresh converter). Non-trivial = at least 2 threads and at least 1 context switch; "
                "distinct = distinct digest of the sequence of (from-thread,to-thread,file:line) context switches.",
        "samples": samples,
        "runs_per_hour": int(len(ok_results) / max(wall, 1e-6) * 3600),
        "seeds": {"VERIF_SEED": seed, "first_run_seeds": run_seeds[:5]},
        "steps_total": sum(r.get("steps", 0) for r in ok_results),
        "steps_max_in_one_run": {"normal": max([r.get("steps", 0) for r in ok_results if not r.get("deep")] or [0]),
                                 "deep": max([r.get("steps", 0) for r in ok_results if r.get("deep")] or [0])},
        "step_cap": {"normal": 3_000_000, "deep": 8_000_000, "fairness": "a thread that ran 100 000 consecutive steps sits out 30 000 steps when another thread is runnable"},
        "forced_fair_switches": sum(r.get("forced_switches", 0) for r in ok_results),
        "context_switches_total": sum(r.get("switches", 0) for r in ok_results),
        "simulated_time": "no clock is read by property-relevant code; the scheduler step counter is the only time "
                          "(late joiners are released at a step count, with a discrete-event jump when nothing else is runnable)",
        "ops_total": sum(r.get("ops", 0) for r in ok_results),
        "sweep_comparisons": sum(r.get("swept", 0) for r in ok_results),
        "faults_fired": {
            "preemptions_injected": sum(r.get("switches", 0) for r in ok_results),
            "late_start": sum(1 for r in ok_results if r.get("probes", {}).get("late_joiner")),
            "runs_with_buggify_sites": counters["buggify_runs"],
        },
        "probes_runs_hit": probes,
        "shapes": shapes,
        "deep_mode_runs": sum(1 for r in ok_results if r.get("deep")),
        "policies": pols,
        "distinct_interleavings": distinct,
        "systematic_single_preemption_sweep": dict(sweep_info, runs=sum(1 for r in ok_results if r.get("shape") == "sweep1")),
        "switch_site_lines_in__hooks_py": len(hooks_lines),
        "determinism": {"rerun_other_worker_count": det_checked, "fresh_interpreter_other_hashseed": fresh_checked, "mismatches": det_mismatch},
        "real_vs_stub": {
            "real": ["lsprotocol.converters/_hooks/types/validators (current working tree)", "attrs", "cattrs", "typing", "CPython threads"],
            "simulated": ["choice of which thread runs at each pre-emption point", "threading.Lock/RLock/Event/Condition created by lsprotocol (none on the pinned tree)", "interrupts (MemoryError/RecursionError/KeyboardInterrupt) delivered at a seeded pre-emption point inside get_converter", "garbage collection of dropped converters (address reuse)", "time.time/monotonic between operations"],
            "stub": [],
        },
        "battery": {"structure_inputs_fixed": N_BASE_STRUCT, "structure_inputs_from_testdata_plugin": hm_start() - N_BASE_STRUCT, "hook_matrix_inputs": len(battery.STRUCT) - hm_start(), "hook_matrix": hm_info, "hook_matrix_note": hm_note,
                    "constructor_recipes": len(battery.BUILD), "note": extras_note},
        "violation_signatures": sorted(first_fail),
    }
    assumptions = [
        "pre-emption only at source lines of lsprotocol frames, selected dependency call boundaries and operation boundaries; dependency code between two such points is atomic",
        "GIL build of CPython 3.12; free-threaded builds are out of reach",
        "sameness is judged on the committed battery (sim/battery.py), not on all inputs",
    ]
    return rep.finish(coverage, assumptions)


if __name__ == "__main__":
    core.ensure_hashseed0()
    sys.exit(main(sys.argv[1:]))

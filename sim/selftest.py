"""Sensitivity self-test: every mutant below breaks one claimed property while the repo still imports
and its test suite still passes; each must be reported by that property's quick check.

Mutants are (file, old, new) replacements applied to a scratch copy of the tree under test on tmpfs
(removed afterwards).  The very same checks run against the copy through VERIF_REPO.

    ./check selftest            all mutants (16 cores: a few minutes)
    ./check selftest NAME...    selected mutants
    ./check selftest --list
"""
from __future__ import annotations

import os
import pathlib
import re
import shutil
import subprocess
import sys
import time
from typing import Dict, List, Tuple

from . import core

M = {}


def mutant(name: str, prop: str, expect: str, edits: List[Tuple[str, str, str]], args: List[str] = ()):  # type: ignore[assignment]
    M[name] = {"prop": prop, "expect": expect, "edits": edits, "args": list(args)}


# ---- C16 ------------------------------------------------------------------------------------------
mutant("c16-python-unsorted-special-properties", "C16", r"python:output-differs",
       [("generator/plugins/python/utils.py",
         "f\"_SPECIAL_PROPERTIES = [{', '.join(sorted(set(self._special_properties)))}]\"",
         "f\"_SPECIAL_PROPERTIES = [{', '.join(set(self._special_properties))}]\"")], ["--plugin", "python", "--runs", "160"])
mutant("c16-rust-unsorted-direction-set", "C16", r"rust:output-differs",
       [("generator/plugins/rust/rust_commons.py",
         "    direction = sorted(\n        set([m.messageDirection for m in (spec.requests + spec.notifications)])\n    )",
         "    direction = list(\n        set([m.messageDirection for m in (spec.requests + spec.notifications)])\n    )")], ["--plugin", "rust", "--runs", "160"])
mutant("c16-rust-emit-in-id-order", "C16", r"rust:output-differs",
       [("generator/plugins/rust/rust_commons.py",
         "        for _, _, impl in self._id_data.values():\n            lines += impl",
         "        for _, (_, _, impl) in sorted(self._id_data.items()):\n            lines += impl")], ["--plugin", "rust", "--runs", "100"])
mutant("c16-dotnet-no-cleanup", "C16", r"dotnet:stale-owned-file-survives",
       [("generator/plugins/dotnet/dotnet_utils.py", "    cleanup(output_path)\n    copy_custom_classes", "    copy_custom_classes")], ["--plugin", "dotnet", "--runs", "160"])
mutant("c16-testdata-no-cleanup", "C16", r"testdata:stale-owned-file-survives",
       [("generator/plugins/testdata/testdata_utils.py", "    cleanup(output)\n", "")], ["--plugin", "testdata", "--runs", "160"])
mutant("c16-dotnet-id-in-comment", "C16", r"dotnet:(uuid-leak|output-differs)",
       [("generator/plugins/dotnet/dotnet_utils.py",
         "(output_path / file_name).write_text(\"\\n\".join(lines), encoding=\"utf-8\")\n\n\ndef generate_package_code",
         "(output_path / file_name).write_text(\"\\n\".join(lines), encoding=\"utf-8\")\n    (output_path / \"Index.cs\").write_text(\"\\n\".join(f\"// {k}\" for k in types._id_data), encoding=\"utf-8\")\n\n\ndef generate_package_code")],
       ["--plugin", "dotnet", "--runs", "100"])
mutant("c16-python-skip-write-if-exists", "C16", r"python:output-differs",
       [("generator/plugins/python/utils.py",
         "    for file_name in code:\n        (output_path / file_name).write_text(code[file_name], encoding=\"utf-8\")",
         "    for file_name in code:\n        if (output_path / file_name).exists() and (output_path / file_name).stat().st_size > 100000:\n            continue\n        (output_path / file_name).write_text(code[file_name], encoding=\"utf-8\")")],
       ["--plugin", "python", "--runs", "200"])

mutant("c16-python-default-encoding", "C16", r"python:final-run-failed:UnicodeEncodeError",
       [("generator/plugins/python/utils.py", "        (output_path / file_name).write_text(code[file_name], encoding=\"utf-8\")", "        (output_path / file_name).write_text(code[file_name])")],
       ["--plugin", "python", "--runs", "160"])

mutant("c16-rust-header-with-date", "C16", r"rust:output-differs",
       [("generator/plugins/rust/rust_utils.py", "        \"// ****** THIS IS A GENERATED FILE, DO NOT EDIT. ******\",\n",
         "        \"// ****** THIS IS A GENERATED FILE, DO NOT EDIT. ******\",\n        \"// Generated on \" + __import__(\"datetime\").date.today().isoformat(),\n")],
       ["--plugin", "rust", "--runs", "100"])
mutant("c16-python-header-with-model-path", "C16", r"python:output-differs",
       [("generator/__main__.py", "    spec: model.LSPModel = model.create_lsp_model(json_models)\n",
         "    spec: model.LSPModel = model.create_lsp_model(json_models)\n    spec.metaData.version += \" (\" + \", \".join(os.fspath(m) for m in model_files) + \")\"\n"),
        ("generator/plugins/python/utils.py", "    code = TypesCodeGenerator(spec).get_code()\n", "    code = TypesCodeGenerator(spec).get_code()\n    code = {k: v + f\"\\n# model: {spec.metaData.version}\\n\" for k, v in code.items()}\n")],
       ["--plugin", "python", "--runs", "60"])

# ---- C05 ------------------------------------------------------------------------------------------
mutant("c05-hand-edit-types-py", "C05", r"python:statement-differs",
       [("packages/python/lsprotocol/types.py", "class Position:\n", "class Position:\n    _hand_edited = True\n")])
mutant("c05-hand-edit-lib-rs", "C05", r"rust:item-differs",
       [("packages/rust/lsprotocol/src/lib.rs", "pub struct Position {", "pub struct Position {\n    // hand edit\n    #[serde(default)]")])
mutant("c05-model-edit-not-propagated", "C05", r"(python|rust):",
       [("generator/lsp.json", "\"name\": \"Position\",", "\"name\": \"Position\",\n            \"deprecated\": \"use something else\",")])

# ---- C18 ------------------------------------------------------------------------------------------
mutant("c18-validate-after-plugin", "C18", r"gate:(wrote|plugin-ran)",
       [("generator/__main__.py", "        jsonschema.validate(json_model, schema)\n", ""),
        ("generator/__main__.py", "        LOGGER.info(f\"Plugin {plugin} completed.\")\n",
         "        LOGGER.info(f\"Plugin {plugin} completed.\")\n        for json_model in json_models:\n            jsonschema.validate(json_model, schema)\n")])
mutant("c18-validate-first-file-only", "C18", r"gate:",
       [("generator/__main__.py", "        jsonschema.validate(json_model, schema)\n", "        if not json_models:\n            jsonschema.validate(json_model, schema)\n")])
mutant("c18-property-eq-ignores-optional", "C18", r"different-documents-compare-equal",
       [("generator/model.py", "                and self.type == other.type\n                and self.optional == other.optional\n", "                and self.type == other.type\n")], ["--no-gate-classes"])
mutant("c18-property-drops-since", "C18", r"readback-differs",
       [("generator/model.py", "@attrs.define\nclass Property:", "def _drop(_x):\n    return None\n\n\n@attrs.define\nclass Property:"),
        ("generator/model.py",
         "    since: Optional[str] = attrs.field(\n        validator=attrs.validators.optional(attrs.validators.instance_of(str)),\n        default=None,\n    )\n    sinceTags: Optional[List[str]] = attrs.field(\n        validator=attrs.validators.optional(attrs.validators.instance_of(list)),\n        default=None,\n    )\n    deprecated: Optional[str] = attrs.field(\n        validator=attrs.validators.optional(attrs.validators.instance_of(str)),\n        default=None,\n    )\n    id_: Optional[str] = attrs.field(\n        converter=lambda x: str(uuid.uuid4()),\n        validator=attrs.validators.optional(attrs.validators.instance_of(str)),\n        default=None,\n    )\n\n    def __eq__(self, other: object) -> bool:\n        if isinstance(other, Property):",
         "    since: Optional[str] = attrs.field(\n        converter=_drop,\n        default=None,\n    )\n    sinceTags: Optional[List[str]] = attrs.field(\n        validator=attrs.validators.optional(attrs.validators.instance_of(list)),\n        default=None,\n    )\n    deprecated: Optional[str] = attrs.field(\n        validator=attrs.validators.optional(attrs.validators.instance_of(str)),\n        default=None,\n    )\n    id_: Optional[str] = attrs.field(\n        converter=lambda x: str(uuid.uuid4()),\n        validator=attrs.validators.optional(attrs.validators.instance_of(str)),\n        default=None,\n    )\n\n    def __eq__(self, other: object) -> bool:\n        if isinstance(other, Property):")],
       ["--no-gate-classes"])
mutant("c18-merge-reversed", "C18", r"merge-differs",
       [("generator/model.py", "        for model in models[1:]:", "        for model in reversed(models[1:]):")], ["--no-gate-classes"])
mutant("c18-merge-takes-last-metadata", "C18", r"merge-(differs|rejected)",
       [("generator/model.py", "            spec.typeAliases.extend(addition.typeAliases)\n", "            spec.typeAliases.extend(addition.typeAliases)\n            spec.metaData.version = addition.metaData.version\n")], ["--no-gate-classes"])

mutant("c18-no-validation-of-default-model", "C18", r"gate:",
       [("generator/__main__.py", "        jsonschema.validate(json_model, schema)\n", "        if args.model:\n            jsonschema.validate(json_model, schema)\n")], ["--runs", "0"])

mutant("c18-maptype-eq-ignores-key", "C18", r"different-documents-compare-equal",
       [("generator/model.py", "                self.key == other.key\n                and self.value == other.value\n", "                self.value == other.value\n")], ["--no-gate-classes"])
mutant("c18-enum-eq-ignores-type", "C18", r"different-documents-compare-equal",
       [("generator/model.py", "                self.name == other.name\n                and self.type == other.type\n                and self.values == other.values\n",
         "                self.name == other.name\n                and self.values == other.values\n")], ["--no-gate-classes"])
mutant("c18-ortype-eq-order-insensitive", "C18", r"different-documents-compare-equal",
       [("generator/model.py", "        if isinstance(other, OrType):\n            return self.items == other.items and self.kind == other.kind",
         "        if isinstance(other, OrType):\n            return (\n                len(self.items) == len(other.items)\n                and all(i in other.items for i in self.items)\n                and self.kind == other.kind\n            )")],
       ["--no-gate-classes"])

# ---- C19 ------------------------------------------------------------------------------------------
mutant("c19-flag-set-before-resolution", "C19", r"(create-raised|use-differs|build-differs|sweep-differs)",
       [("packages/python/lsprotocol/_hooks.py", "    if not _resolved_forward_references:\n\n        def _filter", "    if not _resolved_forward_references:\n        _resolved_forward_references = True\n\n        def _filter")])
mutant("c19-iterate-shared-map", "C19", r"create-raised:RuntimeError",
       [("packages/python/lsprotocol/_hooks.py", "        types_map = dict(lsp_types.ALL_TYPES_MAP)\n", "        types_map = lsp_types.ALL_TYPES_MAP\n")])
mutant("c19-singleton-converter", "C19", r"(use-differs|build-differs|sweep-differs)",
       [("packages/python/lsprotocol/converters.py",
         "    if converter is None:\n        converter = cattrs.Converter()\n    return _hooks.register_hooks(converter)",
         "    global _DEFAULT\n    if converter is None:\n        if _DEFAULT is None:\n            _DEFAULT = _hooks.register_hooks(cattrs.Converter())\n        return _DEFAULT\n    return _hooks.register_hooks(converter)\n\n\n_DEFAULT = None")])
mutant("c19-hooks-use-latest-converter", "C19", r"(use-differs|build-differs|sweep-differs)",
       [("packages/python/lsprotocol/_hooks.py", "_resolved_forward_references = False\n", "_resolved_forward_references = False\n_CURRENT = None\n"),
        ("packages/python/lsprotocol/_hooks.py",
         "def register_hooks(converter: cattrs.Converter) -> cattrs.Converter:\n    _resolve_forward_references()\n",
         "def register_hooks(converter: cattrs.Converter) -> cattrs.Converter:\n    global _CURRENT\n    _CURRENT = converter\n    _resolve_forward_references()\n"),
        ("packages/python/lsprotocol/_hooks.py",
         "        else:\n            return converter.structure(object_, lsp_types.Location)\n\n    def _symbol_hook(",
         "        else:\n            return _CURRENT.structure(object_, lsp_types.Location)\n\n    def _symbol_hook(")])


mutant("c19-id-keyed-registry", "C19", r"(use-differs|build-differs|sweep-differs|create-raised)",
       [("packages/python/lsprotocol/converters.py",
         "    if converter is None:\n        converter = cattrs.Converter()\n    return _hooks.register_hooks(converter)",
         "    if converter is None:\n        converter = cattrs.Converter()\n    if id(converter) in _REGISTERED:\n        return converter\n    _REGISTERED.add(id(converter))\n    return _hooks.register_hooks(converter)\n\n\n_REGISTERED = set()")])


mutant("c19-lock-order-deadlock", "C19", r"deadlock",
       [("packages/python/lsprotocol/converters.py", "from . import _hooks\n", "import threading\n\nfrom . import _hooks\n\n_A = threading.Lock()\n_B = threading.Lock()\n"),
        ("packages/python/lsprotocol/converters.py",
         "    if converter is None:\n        converter = cattrs.Converter()\n    return _hooks.register_hooks(converter)",
         "    if converter is None:\n        with _A:\n            with _B:\n                return _hooks.register_hooks(cattrs.Converter())\n    with _B:\n        with _A:\n            return _hooks.register_hooks(converter)")])
mutant("c19-event-set-only-on-first-path", "C19", r"deadlock",
       [("packages/python/lsprotocol/_hooks.py", "# Flag to ensure we only resolve forward references once.\n_resolved_forward_references = False\n",
         "import threading\n\n# Flag to ensure we only resolve forward references once.\n_resolved_forward_references = False\n_resolving = False\n_resolved_event = threading.Event()\n"),
        ("packages/python/lsprotocol/_hooks.py", "    global _resolved_forward_references\n    if not _resolved_forward_references:\n",
         "    global _resolved_forward_references, _resolving\n    if _resolving and not _resolved_forward_references:\n        _resolved_event.wait()\n        return\n    if not _resolved_forward_references:\n        _resolving = True\n"),
       ])


mutant("c19-livelock-mutual-spin", "C19", r"no-progress-within-step-cap",
       [("packages/python/lsprotocol/_hooks.py", "# Flag to ensure we only resolve forward references once.\n_resolved_forward_references = False\n",
         "# Flag to ensure we only resolve forward references once.\n_resolved_forward_references = False\n_resolving = False\n_spinners = 0\n"),
        ("packages/python/lsprotocol/_hooks.py", "    global _resolved_forward_references\n    if not _resolved_forward_references:\n",
         "    global _resolved_forward_references, _resolving, _spinners\n    if not _resolved_forward_references:\n        if _resolving:\n            _spinners += 1\n            while not _resolved_forward_references:\n                pass\n            _spinners -= 1\n            return\n        _resolving = True\n"),
        ("packages/python/lsprotocol/_hooks.py", "                attrs.resolve_types(value, types_map, {})\n        _resolved_forward_references = True",
         "                attrs.resolve_types(value, types_map, {})\n        while _spinners:\n            pass\n        _resolved_forward_references = True"),
       ], ["--runs", "200"])
mutant("c19-spin-wait-is-not-a-livelock", "C19", r"^$",
       # negative control: a busy wait that is CORRECT — it ends when the resolver finishes or gives up
       # (the in-progress mark is taken inside the try and dropped in its finally), after which the waiter
       # resolves for itself if need be.  It spins for thousands of steps; that is not a livelock.
       [("packages/python/lsprotocol/_hooks.py", "# Flag to ensure we only resolve forward references once.\n_resolved_forward_references = False\n",
         "# Flag to ensure we only resolve forward references once.\n_resolved_forward_references = False\n_resolving = False\n"),
        ("packages/python/lsprotocol/_hooks.py", "    global _resolved_forward_references\n    if not _resolved_forward_references:\n",
         "    global _resolved_forward_references, _resolving\n    if not _resolved_forward_references:\n        while _resolving and not _resolved_forward_references:\n            pass\n        if _resolved_forward_references:\n            return\n"),
        ("packages/python/lsprotocol/_hooks.py", "        for _, value in items:\n            if isinstance(value, type):\n                attrs.resolve_types(value, types_map, {})\n        _resolved_forward_references = True\n",
         "        try:\n            _resolving = True\n            for _, value in items:\n                if isinstance(value, type):\n                    attrs.resolve_types(value, types_map, {})\n            _resolved_forward_references = True\n        finally:\n            _resolving = False\n"),
       ], ["--runs", "150"])


def apply_edits(root: pathlib.Path, edits: List[Tuple[str, str, str]]) -> None:
    for rel, old, new in edits:
        p = root / rel
        s = p.read_text(encoding="utf-8")
        if s.count(old) < 1:
            raise core.HarnessError(f"mutant edit does not apply to {rel}: {old[:60]!r}")
        p.write_text(s.replace(old, new, 1), encoding="utf-8")


def run_mutant(name: str, keep: bool = False) -> Tuple[bool, str, float]:
    m = M[name]
    src = core.repo_root()
    dst = core.scratch_base() / f"lspv-mut-{os.getpid()}-{name}"
    if dst.exists():
        shutil.rmtree(dst)
    t0 = time.monotonic()
    try:
        shutil.copytree(src, dst, ignore=shutil.ignore_patterns(".git", "__pycache__", "*.egg-info", ".pytest_cache", "target", "bin", "obj"))
        apply_edits(dst, m["edits"])
        env = dict(os.environ, VERIF_REPO=str(dst))
        env.pop("PYTHONHASHSEED", None)
        p = subprocess.run([sys.executable, "-m", f"sim.{m['prop'].lower()}", "--tier", "quick"] + m["args"], cwd=str(core.VERIF), env=env,
                           capture_output=True, text=True, timeout=1500)
        out = p.stdout + p.stderr
        sigs = re.findall(r"violation: (\S+)", out)
        if m["expect"] == "^$":  # negative control: a change that does NOT break the property
            hit = p.returncode == 0 and not sigs
        else:
            hit = p.returncode == 1 and any(re.search(m["expect"], s) for s in sigs)
        detail = f"rc={p.returncode} signatures={sorted(set(sigs))[:4]}"
        if not hit:
            detail += " :: " + out[-400:].replace("\n", " | ")
        return hit, detail, time.monotonic() - t0
    finally:
        if not keep:
            shutil.rmtree(dst, ignore_errors=True)


def main(argv: List[str]) -> int:
    if "--list" in argv:
        for k, v in M.items():
            print(f"{k:45s} {v['prop']}  expects /{v['expect']}/")
        return 0
    names = [a for a in argv if not a.startswith("-")] or list(M)
    # evidence files are rewritten by the mutant runs: keep the real ones
    ev = core.VERIF / "evidence"
    saved = {p.name: p.read_bytes() for p in ev.glob("*.json")} if ev.exists() else {}
    missed = []
    try:
        for n in names:
            hit, detail, dt = run_mutant(n)
            print(f"{'CAUGHT' if hit else 'MISSED'}  {n:45s} {dt:6.1f}s  {detail}", flush=True)
            if not hit:
                missed.append(n)
    finally:
        for k, b in saved.items():
            (ev / k).write_bytes(b)
        # replays written by mutant runs are not findings about the real tree
    print(f"selftest: {len(names) - len(missed)}/{len(names)} mutants caught")
    return 0 if not missed else 1


if __name__ == "__main__":
    sys.exit(main(sys.argv[1:]))

"""Classes of the USER (not of lsprotocol) used by the C19 battery.  No `from __future__ import
annotations` here: the field types must be real types, the way a user module that does not postpone
annotations has them."""
import typing as _t

import attrs


def make(lsp: _t.Any) -> _t.Dict[str, _t.Any]:
    @attrs.define
    class UserThing:
        """Field types are the generic types for which get_converter registers hooks on the user's
        converter."""

        ident: _t.Union[int, str]
        flag: _t.Optional[_t.Union[str, bool]] = None
        anything: _t.Optional[_t.Union[bool, _t.Any]] = None
        maybe_id: _t.Optional[_t.Union[int, str]] = None
        nothing: type(None) = None  # type: ignore[valid-type]
        label: _t.Union[str, _t.Tuple[int, int]] = "x"

    @attrs.define
    class UserBox:
        things: _t.List[UserThing] = attrs.field(factory=list)
        position: _t.Optional[lsp.Position] = None

    # two different classes with the very same module and qualified name
    TwinA = attrs.make_class("CustomParams", {"trace_level": attrs.field(type=int), "dry_run": attrs.field(type=_t.Optional[bool], default=None)})
    TwinB = attrs.make_class("CustomParams", {"work_done_token": attrs.field(type=_t.Union[int, str]), "trace_level": attrs.field(type=str),
                                              "partial_result_token": attrs.field(type=_t.Optional[_t.Union[int, str]], default=None)})

    def _local(kind: int) -> _t.Any:
        if kind == 0:
            @attrs.define
            class Settings:
                first_name: str
                retry_count: int = 0
        else:
            @attrs.define
            class Settings:  # type: ignore[no-redef]
                retry_count: str
                last_seen_version: _t.Optional[int] = None
                first_name: _t.List[str] = attrs.field(factory=list)
        return Settings

    # a user class whose annotations cannot be resolved (a forward reference to a name that does not
    # exist): generating its hook RAISES, inside the converter's hook factory — a failing generation must
    # leave nothing behind (the same error every time, on every converter)
    @attrs.define
    class UserBroken:
        ident: "int"
        other: "NoSuchTypeAnywhere" = None  # type: ignore[name-defined]  # noqa: F821

    @attrs.define
    class UserHolder:
        position: _t.Optional[lsp.Position] = None
        inner: _t.Optional[UserBroken] = None

    # the user's subclasses of lsprotocol classes (class hierarchies: anything looked up through the
    # MRO or cached on a class is shared between a class and its subclasses)
    @attrs.define
    class TracedPosition(lsp.Position):
        trace_id: _t.Optional[str] = None
        origin_file: _t.Optional[str] = None

    @attrs.define
    class TaggedRange(lsp.Range):
        tag_name: str = "t"
        line_count: _t.Optional[int] = None

    @attrs.define
    class DeepTraced(TracedPosition):
        hop_count: int = 0

    # the user's own scalar type (not an attrs class) for which THEY register predicate hooks
    class UserUri:  # deliberately not a str subclass: cattrs would find its str hook before any predicate
        def __init__(self, value: str) -> None:
            self.value = value

        def __repr__(self) -> str:
            return f"UserUri({self.value!r})"

        def __eq__(self, other: object) -> bool:
            return isinstance(other, UserUri) and other.value == self.value

        __hash__ = None  # type: ignore[assignment]

    @attrs.define
    class UserDoc:
        uri: UserUri
        version: int = 0
        links: _t.List[UserUri] = attrs.field(factory=list)

    assert TwinA is not TwinB and TwinA.__qualname__ == TwinB.__qualname__ and TwinA.__module__ == TwinB.__module__
    return {"UserThing": UserThing, "UserBox": UserBox, "TwinA": TwinA, "TwinB": TwinB, "LocalA": _local(0), "LocalB": _local(1),
            "UserBroken": UserBroken, "UserHolder": UserHolder,
            "UserUri": UserUri, "UserDoc": UserDoc, "TracedPosition": TracedPosition, "TaggedRange": TaggedRange, "DeepTraced": DeepTraced}

"""C16 — generation is a deterministic function of the model files alone.

One simulated run = a history of generator invocations on one scratch tree:
    PLACE(...)* / RUN(M', env, fault)* / RUN_OTHER(plugin', ...)*  then  RUN(M, env)+ (fault-free)
Oracle: after every final RUN(M, env) the plugin exits 0 and its owned files are byte-identical to
a clean-room reference run Ref(P, M) (empty directory, hash seed 0, constant uuid stream, real listing order);
no simulated uuid string occurs in any owned file.
"""
from __future__ import annotations

import copy
import json
import os
import pathlib
import random
import re
import shutil
import sys
import time
from typing import Any, Dict, List, Optional, Tuple

from . import core, genworld as gw, models

PROP = "C16"
UUID_RE = re.compile(rb"[0-9a-f]{8}-[0-9a-f]{4}-4[0-9a-f]{3}-[89ab][0-9a-f]{3}-[0-9a-f]{12}")

_BASE: Dict[str, Any] = {}


def base_model() -> Dict[str, Any]:
    if "doc" not in _BASE:
        _BASE["doc"] = json.loads((core.repo_root() / "generator" / "lsp.json").read_text(encoding="utf-8"))
    return _BASE["doc"]


# --------------------------------------------------------------------------------------------
# model specs -> documents
# --------------------------------------------------------------------------------------------

def build_model(spec: Dict[str, Any]) -> List[bytes]:
    """spec: {'base': 'full'|'sub', 'sub_seed', 'lo','hi', 'edits_seed', 'n_edits', 'split', 'split_seed', 'compact'}"""
    doc = base_model()
    if spec.get("base") == "sub":
        r = random.Random(spec["sub_seed"])
        lo, hi = spec.get("lo", 2), spec.get("hi", 6)
        k = r.randint(lo, hi)
        kr = r.randint(1, max(1, k - 1))  # at least one request and one notification: a model
        # without requests crashes the dotnet plugin on the pinned tree (a C06 matter, not C16)
        rm = [x["method"] for x in r.sample(doc["requests"], kr)]
        nm = [x["method"] for x in r.sample(doc["notifications"], max(1, k - kr))]
        doc = models.closed_submodel(doc, rm, nm)
    else:
        doc = copy.deepcopy(doc)
    if spec.get("n_edits"):
        doc, _ = models.evolve(doc, random.Random(spec["edits_seed"]), spec["n_edits"], spec.get("for_plugin"))
        if not doc["requests"] or not doc["notifications"]:
            raise core.HarnessError("model generator produced a model without requests/notifications")
    if spec.get("permute_seed") is not None:
        doc = models.permuted(doc, random.Random(spec["permute_seed"]))
    parts = [doc]
    if spec.get("split", 1) > 1:
        parts = models.split(doc, random.Random(spec["split_seed"]), spec["split"])
    if spec.get("meta_seed") is not None and len(parts) > 1:
        # later files carry another metaData.version (spellings that tie under a numeric comparison)
        rm_ = random.Random(spec["meta_seed"])
        v0 = str(parts[0]["metaData"].get("version", "3.17.0"))
        for p_ in parts[1:]:
            p_["metaData"] = {"version": rm_.choice([v0 + "-proposed", v0 + ".0", v0.rsplit(".", 1)[0], v0 + "+build", "v" + v0, v0])}
    if spec.get("overlap_seed") is not None and len(parts) > 1:
        # a later file declares again (identically) some of what an earlier file declares, next to its
        # own declarations: "the first model extended in order by the others' declarations"
        ro = random.Random(spec["overlap_seed"])
        for sec in models.SECTIONS:
            src = parts[0][sec]
            if src and ro.random() < 0.6:
                for it in ro.sample(src, min(len(src), ro.randint(1, 2))):
                    tgt = parts[ro.randrange(1, len(parts))][sec]
                    tgt.insert(ro.randint(0, len(tgt)), copy.deepcopy(it))
    if spec.get("repeat"):
        # one more file without declarations; listed more than once on the command line (see path_list)
        parts = parts + [{"metaData": copy.deepcopy(parts[0]["metaData"]), **{s_: [] for s_ in models.SECTIONS}}]
    cr = random.Random(spec.get("split_seed", 0) ^ 0x5EED) if spec.get("compact") else None
    return [models.dumps(p, cr) for p in parts]


def path_list(files: List[str], spec: Dict[str, Any]) -> List[str]:
    """The --model list for the written files: in order, or (spec['repeat']) with the declaration-free
    last file inserted at the given positions, i.e. the same path more than once in the list."""
    if not spec.get("repeat"):
        return files
    real, empty = list(files[:-1]), files[-1]
    for pos in sorted(spec["repeat"], reverse=True):
        real.insert(min(pos, len(real)), empty)
    return real


def gen_model_spec(r: random.Random, plugin: str, tier: str, allow_full: bool = True) -> Dict[str, Any]:
    full_p = {"python": 0.15, "rust": 0.15, "dotnet": 0.05, "testdata": 0.0}[plugin] if allow_full else 0.0
    if r.random() < full_p:
        spec: Dict[str, Any] = {"base": "full"}
    else:
        spec = {"base": "sub", "sub_seed": r.randrange(2**40), "lo": 2, "hi": 7 if plugin != "testdata" else 4}
    if plugin in models.PLUGIN_EDITS:
        spec["for_plugin"] = plugin
    if r.random() < 0.6:
        spec["n_edits"] = r.randint(1, 6)
        spec["edits_seed"] = r.randrange(2**40)
    if r.random() < 0.3:
        spec["split"] = r.choice([2, 2, 3])
        spec["split_seed"] = r.randrange(2**40)
        if r.random() < 0.35:
            spec["meta_seed"] = r.randrange(2**40)
        if plugin != "python" and r.random() < 0.25:
            # (the python plugin of the pinned tree refuses some duplicated declarations)
            spec["overlap_seed"] = r.randrange(2**40)
        if r.random() < 0.4:
            # a path that occurs more than once in the list of model files
            spec["repeat"] = sorted(r.randint(0, spec["split"]) for _ in range(r.choice([2, 2, 3])))
    elif r.random() < 0.06:
        spec["repeat"] = sorted(r.randint(0, 1) for _ in range(2))
    if r.random() < 0.2:
        spec["compact"] = True
        spec.setdefault("split_seed", r.randrange(2**40))
    return spec


def variant_of(spec: Dict[str, Any], r: random.Random) -> Dict[str, Any]:
    """A *different* model M' related to M (what an earlier checkout of the model would be)."""
    v = dict(spec)
    x = r.random()
    if x < 0.22:
        # the very same declarations in another order
        v["permute_seed"] = r.randrange(2**40)
        return v
    if x < 0.5:
        v["n_edits"] = spec.get("n_edits", 0) + r.randint(1, 4)
        v["edits_seed"] = r.randrange(2**40)
    elif spec.get("base") == "sub":
        v["sub_seed"] = r.randrange(2**40)
    else:
        v = {"base": "sub", "sub_seed": r.randrange(2**40), "lo": 2, "hi": 6, "n_edits": 2, "edits_seed": r.randrange(2**40)}
    v.pop("split", None)
    v.pop("repeat", None)
    v.pop("overlap_seed", None)
    v.pop("meta_seed", None)
    return v


# --------------------------------------------------------------------------------------------
# history generation
# --------------------------------------------------------------------------------------------

FAULT_KINDS = ["kill_before", "torn_kill", "enospc", "eio", "torn_enospc", "torn_eio", "kill_unlink", "mkdir_enospc", "mkdir_kill"]
OTHER = {"python": ["rust", "dotnet"], "rust": ["python", "dotnet"], "dotnet": ["python", "rust"], "testdata": ["python"]}
EST_WRITES = {"python": 1, "rust": 1, "dotnet": 90, "testdata": 1500}


def crash_sweep(seed: int, points: int) -> List[Dict[str, Any]]:
    """Systematic part: for the two plugins that own many files, an earlier run of a related model is
    killed (or its disk fails) at every position of an even grid over its writes, resp. over the
    unlinks of its cleanup; the following fault-free run must still produce the reference tree."""
    out = []
    for plugin in ("dotnet", "testdata"):
        M = {"base": "sub", "sub_seed": core.derive(seed, "crash-sweep-model", plugin) % 2**40, "lo": 2, "hi": 3, "n_edits": 2, "edits_seed": 7}
        Mp = dict(M, n_edits=4, edits_seed=8)
        for kind, on in (("torn_kill", "write"), ("kill_before", "write"), ("enospc", "write"), ("kill_unlink", "unlink")):
            for i in range(points):
                frac = i / max(1, points - 1)
                rs = core.derive(seed, PROP, "crash-sweep", plugin, kind, i)
                env = {"hashseed": "0", "uuid_seed": 2, "ls_seed": None, "locale": None}
                ops: List[List[Any]] = []
                if on == "unlink":
                    ops.append(["RUN", Mp, env, None])
                ops.append(["RUN", Mp if i % 2 else M, env, {"kind": kind, "on": on, "at_frac": frac, "frac": [0.0, 0.5, 0.999][i % 3]}])
                out.append({"run_seed": rs, "plugin": plugin, "model": M, "ops": ops, "finals": [env], "test_dir": False, "sweep": True})
    return out


def gen_history(run_seed: int, tier: str, plugin: Optional[str] = None) -> Dict[str, Any]:
    r = core.rng(run_seed, "ops")
    rf = core.rng(run_seed, "faults")
    re_ = core.rng(run_seed, "env")
    if plugin is None:
        plugin = r.choices(gw.PLUGINS, weights=[30, 30, 22, 18])[0]
    M = gen_model_spec(r, plugin, tier)
    ops: List[List[Any]] = []
    n_pre = r.choice([0, 1, 1, 2, 2, 3])
    for i in range(n_pre):
        x = r.random()
        if x < 0.30:
            ops.append(["PLACE", r.choice(["stale_owned", "stale_realname", "stale_realname", "stale_casename", "foreign", "empty_pkg_dir", "committed_copy"]), r.randrange(2**32)])
        elif x < 0.45:
            ops.append(["RUN_OTHER", r.choice(OTHER[plugin]), gen_model_spec(r, "python", tier, allow_full=False), gw.env_for(run_seed, f"other{i}", re_)])
        else:
            Mp = variant_of(M, r) if r.random() < 0.8 else M
            fault = None
            if rf.random() < 0.55:
                kind = rf.choice(FAULT_KINDS)
                est = EST_WRITES[plugin] if M.get("base") != "full" else {"python": 1, "rust": 1, "dotnet": 660, "testdata": 70000}[plugin]
                if kind == "kill_unlink":
                    fault = {"kind": kind, "on": "unlink", "at": rf.randint(1, max(1, est // 3))}
                elif kind.startswith("mkdir"):
                    fault = {"kind": "kill_before" if kind == "mkdir_kill" else "enospc", "on": "mkdir", "at": rf.randint(1, 2)}
                else:
                    fault = {"kind": kind, "on": "write", "at": rf.randint(1, max(1, est)) if rf.random() < 0.7 else 1,
                             "frac": rf.choice([0.0, 0.1, 0.5, 0.9, 0.999])}
            if fault and fault.get("on") == "unlink" and plugin in ("dotnet", "testdata"):
                ops.append(["RUN", variant_of(M, r), gw.env_for(run_seed, f"prep{i}", re_), None])
            ops.append(["RUN", Mp, gw.env_for(run_seed, f"pre{i}", re_), fault])
    reps = r.choice([1, 1, 2, 3])
    finals = [gw.env_for(run_seed, f"final{i}", re_) for i in range(reps)]
    for f_ in finals:
        if r.random() < 0.15:
            # the same interpreter generated another model (sometimes with another plugin) just before
            f_["inproc_model"] = variant_of(M, r)
            if r.random() < 0.3:
                f_["inproc_plugin"] = r.choice(OTHER[plugin])
                f_["inproc_model"] = gen_model_spec(r, "python", tier, allow_full=False)
    use_test_dir = plugin == "rust" and r.random() < 0.6
    # where the output directory lives: short path, or nested under long directory names, or reached
    # through a relative path from another working directory is not possible (cwd must be the tree), so
    # only the location varies
    out_depth = r.choice([0, 0, 1, 3, 5])
    out_odd = out_depth > 0 and r.random() < 0.5
    crlf_main = use_test_dir and r.random() < 0.25
    out_symlink = r.random() < 0.1
    return {"run_seed": run_seed, "plugin": plugin, "model": M, "ops": ops, "finals": finals, "test_dir": use_test_dir, "out_depth": out_depth,
            "out_odd": out_odd, "crlf_main": crlf_main, "out_symlink": out_symlink}


# --------------------------------------------------------------------------------------------
# executing a history
# --------------------------------------------------------------------------------------------

def _place(kind: str, seed: int, plugin: str, out: pathlib.Path, probes: Dict[str, int]) -> None:
    r = random.Random(seed)
    repo = core.repo_root()
    junk = ("// stale simulated content %d\n" % seed).encode() * r.randint(1, 50)
    if kind == "stale_owned":
        probes["stale_owned_placed"] += 1
        if plugin == "python":
            (out / "lsprotocol").mkdir(parents=True, exist_ok=True)
            (out / "lsprotocol" / "types.py").write_bytes(b"# stale\nclass Gone:\n    pass\n" + junk)
        elif plugin == "rust":
            (out / "lsprotocol" / "src").mkdir(parents=True, exist_ok=True)
            (out / "lsprotocol" / "src" / "lib.rs").write_bytes(b"pub struct Gone;\n" + junk)
        elif plugin == "dotnet":
            (out / "lsprotocol").mkdir(parents=True, exist_ok=True)
            for nm in r.sample(["OldSimStale.cs", "Position.cs", "ZzzRemoved.cs", "aaa.cs", "Validators.cs", ".hidden.cs", "UPPER.CS".lower()], r.randint(1, 3)):
                (out / "lsprotocol" / nm).write_bytes(junk)
        else:
            out.mkdir(parents=True, exist_ok=True)
            for nm in r.sample(["zzz-True-deadbeef.json", "SimStale-False-0000.json", "Position-True-%064x.json" % r.getrandbits(256), "a.json", ".hidden.json"], r.randint(1, 3)):
                (out / nm).write_bytes(b'{"stale": true}')
    elif kind == "foreign":
        probes["foreign_placed"] += 1
        out.mkdir(parents=True, exist_ok=True)
        (out / "README.md").write_bytes(b"hands off\n")
        (out / "lsprotocol").mkdir(exist_ok=True)
        (out / "lsprotocol" / "py.typed").write_bytes(b"")
        (out / "lsprotocol" / "Cargo.toml").write_bytes(b"[package]\nname='x'\n")
        (out / "notes.txt").write_bytes(junk)
    elif kind == "empty_pkg_dir":
        probes["empty_pkg_dir_placed"] += 1
        (out / "lsprotocol").mkdir(parents=True, exist_ok=True)
    elif kind == "committed_copy":
        src = {"python": repo / "packages" / "python" / "lsprotocol", "rust": repo / "packages" / "rust" / "lsprotocol",
               "dotnet": repo / "packages" / "dotnet" / "lsprotocol"}.get(plugin)
        if src is not None and src.is_dir():
            probes["committed_copy_placed"] += 1
            out.mkdir(parents=True, exist_ok=True)
            dst = out / "lsprotocol"
            if dst.exists():
                shutil.rmtree(dst)
            shutil.copytree(src, dst)


def _exc_class(stderr_tail: str) -> str:
    lines = [l for l in stderr_tail.strip().splitlines() if l.strip()]
    if not lines:
        return "no-stderr"
    last = lines[-1]
    m = re.match(r"([A-Za-z_][A-Za-z0-9_.]*)(:|$)", last)
    return m.group(1) if m else last[:40]


def execute(h: Dict[str, Any]) -> Dict[str, Any]:
    plugin = h["plugin"]
    w = gw.World(f"c16-{h['run_seed']}")
    viol: List[Dict[str, str]] = []
    probes = {k: 0 for k in ["stale_owned_placed", "stale_realname_placed", "stale_casename_placed", "foreign_placed", "empty_pkg_dir_placed", "committed_copy_placed",
                             "cleanup_removed_stale", "stale_overwritten", "fault_fired", "fault_not_reached", "faulted_run_failed",
                             "faulted_run_left_partial", "other_plugin_tree", "merge_files", "earlier_generation_in_same_process", "model_path_repeated", "model_files_overlap", "different_model_before", "listing_permuted",
                             "test_dir_used", "uuid_checked", "ascii_locale", "clock_shifted", "slow_machine_clock", "long_output_path", "crlf_main_rs", "symlinked_output_dir", "python_optimize", "path_spelled_relative_or_odd", "other_machine_identity"]}
    faults_fired: Dict[str, int] = {}
    evlog: List[Any] = []
    try:
        files_M = path_list(w.write_models("M", build_model(h["model"])), h["model"])
        files_ref = path_list(w.write_models("elsewhere/ref-copy", build_model(h["model"])), h["model"])  # same bytes, another path
        if len(files_M) > 1:
            probes["merge_files"] += 1
        if len(set(files_M)) < len(files_M):
            probes["model_path_repeated"] += 1
        if h["model"].get("overlap_seed") is not None:
            probes["model_files_overlap"] += 1
        # ---- reference: clean room -----------------------------------------------------------------
        ref_out = w.path("ref_out")
        ref_td = w.path("ref_td")
        pristine_main = core.repo_root() / "tests" / "rust" / "src" / "main.rs"
        if h.get("test_dir") and pristine_main.exists():
            (ref_td / "src").mkdir(parents=True)
            shutil.copy(pristine_main, ref_td / "src" / "main.rs")
        ref = gw.run_generator(w, plugin, str(ref_out), str(ref_td), files_ref, gw.env_for(0, "", random.Random(0), default=True))
        if ref["rc"] != 0:
            # the model generator is meant to stay inside what every plugin accepts; if the tree under
            # test cannot generate this model at all that is not a C16 observation
            return {"run_seed": h["run_seed"], "violations": [], "harness": None, "skipped": f"reference run failed: {_exc_class(ref['stderr_tail'])}",
                    "skip_detail": ref["stderr_tail"][-400:], "probes": probes, "faults_fired": faults_fired, "invocations": w.n_invocations, "digest": "skip", "plugin": plugin}
        ref_owned = gw.owned_files(plugin, ref_out)
        ref_main = (ref_td / "src" / "main.rs").read_bytes() if h.get("test_dir") and (ref_td / "src" / "main.rs").exists() else None
        ref_writes = sum(1 for e in ref["events"] if e["ev"] == "open_w")

        out = w.path("out")
        for i_ in range(h.get("out_depth", 0)):
            # long names, and characters that are special in glob patterns / shells but legal in paths
            out = out / (["nested-output-location-%02d-" % i_ + "x" * 14, "build [v1]", "out*put?", "with space & co"][i_ % 4] if h.get("out_odd") else "nested-output-location-%02d-" % i_ + "x" * 14)
        if h.get("out_depth"):
            probes["long_output_path"] += 1
        if h.get("out_symlink"):
            # the output directory is a symbolic link to a directory elsewhere
            real = w.path("real-location-of-output")
            real.mkdir(parents=True)
            out.parent.mkdir(parents=True, exist_ok=True)
            os.symlink(real, out)
            probes["symlinked_output_dir"] += 1
        td = w.path("td")
        if h.get("test_dir") and pristine_main.exists():
            (td / "src").mkdir(parents=True)
            shutil.copy(pristine_main, td / "src" / "main.rs")
            probes["test_dir_used"] += 1
            if h.get("crlf_main"):
                # previous contents of the hand-maintained test file: CRLF line endings (autocrlf checkout)
                (td / "src" / "main.rs").write_bytes(pristine_main.read_bytes().replace(b"\r\n", b"\n").replace(b"\n", b"\r\n"))
                probes["crlf_main_rs"] += 1

        # ---- earlier states ------------------------------------------------------------------------
        for i, op in enumerate(h["ops"]):
            if op[0] == "PLACE" and op[1] == "stale_casename":
                # owned-looking files whose names differ from real target names only in letter case (what an
                # earlier model revision with another capitalisation of a type name leaves behind)
                pr = random.Random(op[2])
                names = sorted(ref_owned)
                for nm in pr.sample(names, min(len(names), pr.randint(1, 3))):
                    d_, b_ = os.path.split(nm)
                    variants = [b_.lower(), b_.upper(), b_.swapcase(), b_[:1].swapcase() + b_[1:], b_[:-1] + b_[-1:].swapcase()]
                    alt = next((v for v in pr.sample(variants, len(variants)) if os.path.join(d_, v) not in ref_owned and v.lower().endswith((".cs", ".json", ".py", ".rs"))), None)
                    if alt and plugin in ("dotnet", "testdata") and alt.endswith((".cs", ".json")):
                        pth = out / d_ / alt
                        pth.parent.mkdir(parents=True, exist_ok=True)
                        pth.write_bytes(ref_owned[nm])
                probes["stale_casename_placed"] += 1
                evlog.append(["PLACE", op[1]])
            elif op[0] == "PLACE" and op[1] == "stale_realname":
                # wrong bytes under names the target model really produces (what an interrupted or
                # older run of a related model leaves behind)
                pr = random.Random(op[2])
                names = sorted(ref_owned)
                for nm in pr.sample(names, min(len(names), pr.randint(1, 4))):
                    pth = out / nm
                    pth.parent.mkdir(parents=True, exist_ok=True)
                    good = ref_owned[nm]
                    pth.write_bytes(pr.choice([
                        b"", good[: len(good) // 2], b'{"stale": true}', good + b"\n// trailing junk\n", good.replace(b"a", b"b", 1),
                        # the right text in another encoding of the same characters (what a checkout with
                        # autocrlf, an editor or a BOM-writing tool leaves behind)
                        good.replace(b"\n", b"\r\n"), good.replace(b"\n", b"\r"), b"\xef\xbb\xbf" + good, good + b"\n", good.rstrip(b"\n"),
                        good.replace(b"    ", b"\t"), good.decode("utf-8", "replace").encode("utf-16"),
                    ]))
                probes["stale_realname_placed"] += 1
                evlog.append(["PLACE", op[1]])
            elif op[0] == "PLACE":
                _place(op[1], op[2], plugin, out, probes)
                evlog.append(["PLACE", op[1]])
            elif op[0] == "RUN_OTHER":
                f2 = path_list(w.write_models(f"other{i}", build_model(op[2])), op[2])
                r2 = gw.run_generator(w, op[1], str(out), str(w.path("td_other")), f2, op[3])
                probes["other_plugin_tree"] += 1
                evlog.append(["RUN_OTHER", op[1], r2["rc"]])
            elif op[0] == "RUN":
                fp = path_list(w.write_models(f"pre{i}", build_model(op[1])), op[1])
                if op[1] != h["model"]:
                    probes["different_model_before"] += 1
                fault = dict(op[3]) if op[3] else None
                if fault and "at_frac" in fault:
                    # systematic crash-point sweep: position as a fraction of the writes / owned files
                    total = ref_writes if fault.get("on") == "write" else max(1, len(gw.owned_files(plugin, out)))
                    fault["at"] = 1 + int(fault["at_frac"] * max(0, total - 1))
                elif fault and fault.get("on") == "write" and fault["at"] > 1 and plugin in ("dotnet", "testdata"):
                    fault["at"] = 1 + (fault["at"] - 1) % max(1, ref_writes)
                if fault and fault.get("on") == "unlink" and "at_frac" not in fault:
                    n_owned = len(gw.owned_files(plugin, out))
                    if n_owned:
                        fault["at"] = 1 + (fault["at"] - 1) % n_owned
                before_main = (td / "src" / "main.rs").read_bytes() if (td / "src" / "main.rs").exists() else None
                r1 = gw.run_generator(w, plugin, str(out), str(td), fp, op[2], fault=fault, root=str(out))
                fired = [e for e in r1["events"] if e["ev"] == "fault"]
                if fault:
                    if fired:
                        probes["fault_fired"] += 1
                        kname = fault["kind"] + ("@" + fault["on"] if fault.get("on") != "write" else "")
                        faults_fired[kname] = faults_fired.get(kname, 0) + 1
                        if r1["rc"] != 0:
                            probes["faulted_run_failed"] += 1
                        if gw.owned_files(plugin, out):
                            probes["faulted_run_left_partial"] += 1
                    else:
                        probes["fault_not_reached"] += 1
                    # a crash may tear the hand-maintained test file; its owner restores it (not judged)
                    if before_main is not None and r1["rc"] != 0:
                        (td / "src" / "main.rs").write_bytes(before_main)
                if op[2].get("ls_seed") is not None:
                    probes["listing_permuted"] += 1
                evlog.append(["RUN", r1["rc"], [e.get("kind") for e in fired], len(r1["events"])])

        # ---- the runs under test (fault-free) ------------------------------------------------------
        for j, env in enumerate(h["finals"]):
            stale_before = set(gw.owned_files(plugin, out)) - set(ref_owned)
            same_before = {k for k, v in gw.owned_files(plugin, out).items() if k in ref_owned and v != ref_owned[k]}
            if env.get("inproc_model") is not None:
                pre_files = path_list(w.write_models(f"inproc{j}", build_model(env["inproc_model"])), env["inproc_model"])
                pre_plugin = env.get("inproc_plugin") or plugin
                env = dict(env, inproc_before=[["--plugin", pre_plugin, "--model"] + pre_files + ["--output-dir", str(w.path(f"inproc_out{j}")), "--test-dir", str(w.path(f"inproc_td{j}"))]])
                probes["earlier_generation_in_same_process"] += 1
            rj = gw.run_generator(w, plugin, str(out), str(td), files_M, env)
            if env.get("ls_seed") is not None:
                probes["listing_permuted"] += 1
            if env.get("locale") == "C":
                probes["ascii_locale"] += 1
            if (env.get("clock_step") or 0) >= 0.05:
                probes["slow_machine_clock"] += 1
            if env.get("clock_offset"):
                probes["clock_shifted"] += 1
            if env.get("optimize"):
                probes["python_optimize"] += 1
            if env.get("machine"):
                probes["other_machine_identity"] += 1
            if env.get("path_style") not in (None, "abs"):
                probes["path_spelled_relative_or_odd"] += 1
            evlog.append(["FINAL", rj["rc"], len(rj["events"])])
            if rj["rc"] != 0:
                last = rj["stderr_tail"].strip().splitlines()[-1][:300] if rj["stderr_tail"].strip() else "no stderr"
                prep = [o[0] + ":" + str(o[1]) if o[0] != "RUN" else "RUN" for o in h["ops"]]
                viol.append({"sig": f"{plugin}:final-run-failed:{_exc_class(rj['stderr_tail'])}",
                             "msg": f"fault-free run #{j + 1} of plugin {plugin} exited {rj['rc']} on a directory prepared by {prep}: {last}"})
                break
            got = gw.owned_files(plugin, out)
            removes = sum(1 for e in rj["events"] if e["ev"] == "os.remove")
            if stale_before and not (stale_before & set(got)):
                probes["cleanup_removed_stale"] += 1
            if same_before:
                probes["stale_overwritten"] += 1
            d = gw.diff_trees(ref_owned, got)
            if d is not None:
                viol.append({"sig": f"{plugin}:{d[0]}", "msg": f"run #{j + 1} (hashseed {env['hashseed']}, uuid seed {env['uuid_seed']}, ls seed {env['ls_seed']}): {d[1]}"})
                break
            if ref_main is not None:
                gm = (td / "src" / "main.rs").read_bytes()
                if gm != ref_main:
                    viol.append({"sig": f"{plugin}:test-region-differs", "msg": f"generated region of tests/rust main.rs differs from the clean-room run after run #{j + 1}"})
                    break
            # identifiers must not leak
            if env.get("uuid_seed") is not None:
                n = next((e["uuids"] for e in rj["events"] if e["ev"] == "exit"), 0)
                if n:
                    ids = set(s.encode() for s in gw.uuid_stream(env["uuid_seed"], n))
                    probes["uuid_checked"] += 1
                    for k, b in got.items():
                        hit = next((m.group(0) for m in UUID_RE.finditer(b) if m.group(0) in ids), None)
                        if hit:
                            viol.append({"sig": f"{plugin}:uuid-leak", "msg": f"internal identifier {hit.decode()} written to {k}"})
                            break
                    if gm_leak(ref_main, td, ids):
                        viol.append({"sig": f"{plugin}:uuid-leak", "msg": "internal identifier written to tests main.rs"})
            if viol:
                break
    finally:
        inv = w.n_invocations
        w.destroy()
    return {"run_seed": h["run_seed"], "violations": viol, "harness": None, "probes": probes, "faults_fired": faults_fired,
            "invocations": inv, "digest": core.digest([h["plugin"], h["model"], evlog]), "plugin": plugin, "evlog": evlog,
            "nontrivial": bool(h["ops"]) or any(e.get("hashseed") != "0" or e.get("ls_seed") is not None or e.get("locale") or e.get("clock_offset") or e.get("optimize") or e.get("machine") or e.get("path_style") not in (None, "abs") for e in h["finals"])}


def gm_leak(ref_main: Optional[bytes], td: pathlib.Path, ids: set) -> bool:
    p = td / "src" / "main.rs"
    if ref_main is None or not p.exists():
        return False
    return any(m.group(0) in ids for m in UUID_RE.finditer(p.read_bytes()))


def worker_run(h: Dict[str, Any]) -> Dict[str, Any]:
    try:
        return execute(h)
    except core.HarnessError as e:
        return {"run_seed": h.get("run_seed"), "violations": [], "harness": str(e), "probes": {}, "faults_fired": {}, "invocations": 0, "digest": "harness", "plugin": h.get("plugin")}
    except Exception as e:  # harness bug
        import traceback

        return {"run_seed": h.get("run_seed"), "violations": [], "harness": "exception in harness: " + traceback.format_exc()[-1500:], "probes": {}, "faults_fired": {},
                "invocations": 0, "digest": "harness", "plugin": h.get("plugin")}


# --------------------------------------------------------------------------------------------
# minimisation / replay
# --------------------------------------------------------------------------------------------

def _sigs(res: Dict[str, Any]) -> List[str]:
    return sorted({v["sig"] for v in res.get("violations", [])})


def minimise(h: Dict[str, Any], sig: str) -> Tuple[Dict[str, Any], Dict[str, Any], int]:
    tries = [0]

    def fails(c: Dict[str, Any]) -> Optional[Dict[str, Any]]:
        tries[0] += 1
        out = worker_run(c)
        return out if sig in _sigs(out) else None

    best = copy.deepcopy(h)
    res = fails(best)
    if res is None:
        raise core.HarnessError("violation did not reproduce before minimisation")
    # fewer final runs, default environments
    for cand_fn in (
        lambda c: c.update(finals=c["finals"][:1]),
        lambda c: c.update(finals=[{"hashseed": "0", "uuid_seed": 2, "ls_seed": None, "locale": None}] * len(c["finals"])),
        lambda c: c.update(test_dir=False),
        lambda c: c.update(out_depth=0),
        lambda c: c.update(out_odd=False),
        lambda c: c.update(crlf_main=False),
        lambda c: c.update(out_symlink=False),
        lambda c: c["model"].pop("repeat", None),
        lambda c: c["model"].pop("overlap_seed", None),
        lambda c: c["model"].pop("meta_seed", None),
        lambda c: [f_.pop("inproc_model", None) for f_ in c["finals"]],
        lambda c: (c["model"].pop("split", None), c["model"].pop("repeat", None)),
        lambda c: c["model"].pop("compact", None),
        lambda c: c["model"].update(n_edits=0),
        lambda c: c["model"].update(lo=2, hi=2),
    ):
        c = copy.deepcopy(best)
        cand_fn(c)
        if c != best:
            out = fails(c)
            if out:
                best, res = c, out
    # drop earlier ops
    def f_ops(sub: List[Any]) -> bool:
        c = copy.deepcopy(best)
        c["ops"] = sub
        return bool(fails(c))

    ops = core.ddmin(best["ops"], f_ops, budget=25)
    c = copy.deepcopy(best)
    c["ops"] = ops
    out = fails(c)
    if out:
        best, res = c, out
    # simplify what is left: no fault, default env, same model
    for i, op in enumerate(list(best["ops"])):
        if op[0] == "RUN":
            for simpl in ("nofault", "defenv", "samemodel"):
                c = copy.deepcopy(best)
                if simpl == "nofault":
                    c["ops"][i][3] = None
                elif simpl == "defenv":
                    c["ops"][i][2] = {"hashseed": "0", "uuid_seed": 2, "ls_seed": None, "locale": None}
                else:
                    c["ops"][i][1] = copy.deepcopy(c["model"])
                if c != best:
                    out = fails(c)
                    if out:
                        best, res = c, out
    return best, res, tries[0]


def replay_file(path: str) -> int:
    body = json.loads(open(path).read())
    res = worker_run(body["run"])
    sigs = _sigs(res)
    print(f"[{PROP}] replay {path}: signatures {sigs} digest {res.get('digest')}")
    if res.get("harness"):
        print(f"HARNESS-ERROR: property={PROP} {res['harness']}")
        return core.EXIT_HARNESS
    if body["signature"] in sigs:
        same = res.get("digest") == body.get("digest")
        print(f"  reproduced (event-log digest {'identical' if same else 'DIFFERENT'})")
        for v in res["violations"]:
            print("  " + v["msg"][:400])
        print(f"VIOLATION property={PROP} replay={path}")
        return core.EXIT_VIOLATION
    print("  did not reproduce")
    return core.EXIT_OK


# --------------------------------------------------------------------------------------------
# driver
# --------------------------------------------------------------------------------------------

TIERS = {
    "quick": {"runs": 420, "det": 24, "budget": 100.0, "full_testdata": 0, "crash_points": 6},
    "thorough": {"runs": 9000, "det": 120, "budget": 2400.0, "full_testdata": 2, "crash_points": 120},
}


def main(argv: List[str]) -> int:
    import argparse

    ap = argparse.ArgumentParser(prog=f"check {PROP}")
    ap.add_argument("--tier", default=os.environ.get("VERIF_TIER") or "quick", choices=list(TIERS))
    ap.add_argument("--replay")
    ap.add_argument("--runs", type=int)
    ap.add_argument("--budget", type=float)
    ap.add_argument("--plugin")
    ap.add_argument("--no-selftest", action="store_true")
    a = ap.parse_args(argv)
    if a.replay:
        return replay_file(a.replay)
    tier = a.tier
    cfg = dict(TIERS[tier])
    if a.runs:
        cfg["runs"] = a.runs
    if a.budget:
        cfg["budget"] = a.budget
    seed = core.base_seed(20261003)
    core.cleanup_stale_scratch()
    rep = core.Report(PROP, tier, seed)
    rep.log(f"VERIF_SEED={seed} tier={tier} histories<={cfg['runs']} workers={core.n_workers()} repo={core.repo_root()}")
    base_model()
    t0 = time.monotonic()
    run_seeds = [core.derive(seed, PROP, i) for i in range(cfg["runs"])]
    hist: Dict[int, Dict[str, Any]] = {}

    sweep = [] if a.plugin else crash_sweep(seed, cfg["crash_points"])

    def gen():
        for h in sweep:
            hist[h["run_seed"]] = h
            yield h
        for i, s in enumerate(run_seeds):
            h = gen_history(s, tier, a.plugin)
            hist[s] = h
            yield h
        for k in range(cfg["full_testdata"]):
            s = core.derive(seed, PROP, "full-testdata", k)
            h = gen_history(s, tier, "testdata")
            h["model"] = {"base": "full"}
            h["ops"] = [op for op in h["ops"] if op[0] == "PLACE"] or [["PLACE", "stale_owned", 7]]
            h["finals"] = h["finals"][:1]
            hist[s] = h
            yield h

    results: List[Dict[str, Any]] = []
    first_fail: Dict[str, Tuple[Dict[str, Any], Dict[str, Any]]] = {}

    def on_result(i: int, res: Dict[str, Any]) -> bool:
        results.append(res)
        if res.get("harness"):
            rep.harness_error(f"run_seed={res.get('run_seed')}: {res['harness'][-600:]}")
            return len(rep.harness_errors) >= 3
        for v in res.get("violations", []):
            first_fail.setdefault(v["sig"], (hist[res["run_seed"]], res))
        unknown = [s for s in first_fail if rep.kf.match(PROP, s) is None]
        return len(unknown) >= 4

    try:
        core.run_pool(worker_run, gen(), on_result=on_result, deadline=t0 + cfg["budget"], per_task_timeout=900.0)
    except core.HarnessError as e:
        rep.harness_error(str(e))
    ok = [r for r in results if not r.get("harness")]

    # determinism self-test: same history twice (other worker count) gives the same event-log digest
    det_checked = det_mismatch = 0
    if not a.no_selftest and ok and not rep.harness_errors:
        by_seed = {r["run_seed"]: r for r in ok}
        sample = [s for s in run_seeds if s in by_seed][: cfg["det"]]
        try:
            again = core.run_pool(worker_run, [hist[s] for s in sample], workers=max(2, core.n_workers() // 2), per_task_timeout=900.0)
            for i, r in again:
                det_checked += 1
                if r.get("digest") != by_seed[sample[i]].get("digest"):
                    det_mismatch += 1
                    rep.harness_error(f"determinism: run_seed={sample[i]} digest {by_seed[sample[i]].get('digest')} then {r.get('digest')}", soft=True)
        except core.HarnessError as e:
            rep.harness_error(str(e))

    for sig, (h, res) in sorted(first_fail.items()):
        msg = next(v["msg"] for v in res["violations"] if v["sig"] == sig)
        if rep.kf.match(PROP, sig) is not None:
            rep.add_violation(sig, msg, {})
            continue
        try:
            mh, mres, n = minimise(h, sig)
            rep.log(f"minimised {sig} in {n} executions: {len(mh['ops'])} earlier op(s), {len(mh['finals'])} final run(s)")
        except core.HarnessError as e:
            rep.harness_error(f"minimiser: {e}")
            mh, mres = h, res
        msg = next((v["msg"] for v in mres["violations"] if v["sig"] == sig), msg)
        replay = {"run_seed": h["run_seed"], "verif_seed": seed, "run": mh, "original_run": h, "digest": mres.get("digest"), "evlog": mres.get("evlog"),
                  "how_to_replay": f"cd /verif && ./check {PROP} --replay <this file>"}
        if rep.add_violation(sig, msg, replay):
            v = rep.violations[-1]
            path = rep.write_replay(v)
            v["replay_path"] = path
            import subprocess

            p = subprocess.run([sys.executable, "-m", "sim.c16", "--replay", str(path)], cwd=str(core.VERIF), capture_output=True, text=True, timeout=1800)
            if p.returncode != core.EXIT_VIOLATION:
                rep.harness_error(f"replay file {path} did not reproduce in a fresh process: rc={p.returncode} {p.stdout[-300:]}", soft=True)

    wall = time.monotonic() - t0
    judged = [r for r in ok if not r.get("skipped")]
    probes: Dict[str, int] = {}
    ff: Dict[str, int] = {}
    per_plugin: Dict[str, int] = {}
    for r in judged:
        for k, v in r.get("probes", {}).items():
            probes[k] = probes.get(k, 0) + v
        for k, v in r.get("faults_fired", {}).items():
            ff[k] = ff.get(k, 0) + v
        per_plugin[r["plugin"]] = per_plugin.get(r["plugin"], 0) + 1
    skipped: Dict[str, int] = {}
    for r in ok:
        if r.get("skipped"):
            skipped[r["skipped"]] = skipped.get(r["skipped"], 0) + 1
    distinct = len({r["digest"] for r in judged if r.get("nontrivial")})
    samples = [{"history": hist[r["run_seed"]], "event_log": r.get("evlog")} for r in judged[:3]]
    coverage = {
        "evaluations": len(judged),
        "distinct_nontrivial": distinct,
        "rule": "one evaluation = one history of real `python -m generator` invocations on one scratch tree (earlier PLACE/RUN/RUN_OTHER states, then 1-3 fault-free runs "
                "of the target model, each compared byte-for-byte with a clean-room reference run). Non-trivial = at least one earlier state or a non-default environment; "
                "distinct = distinct digest of (plugin, model spec, per-invocation exit status / fired faults / event counts).",
        "samples": samples,
        "runs_per_hour": int(len(judged) / max(wall, 1e-6) * 3600),
        "generator_invocations": sum(r.get("invocations", 0) for r in ok),
        "seeds": {"VERIF_SEED": seed, "first_run_seeds": run_seeds[:5]},
        "simulated_time": {"note": "a history is a sequence of process lifetimes; the wall clock each generator process sees is shifted by a simulated offset (skew / jump between runs)",
                           "runs_with_shifted_clock": probes.get("clock_shifted", 0),
                           "offsets_used_days": [0, 0.46, 3, -30, 400]},
        "faults_fired": ff,
        "probes": probes,
        "histories_per_plugin": per_plugin,
        "systematic_crash_point_sweep": {"histories": sum(1 for r in judged if hist.get(r["run_seed"], {}).get("sweep")), "points_per_plugin_and_fault_kind": cfg["crash_points"],
                                         "plugins": ["dotnet", "testdata"], "fault_kinds": ["torn_kill", "kill_before", "enospc", "kill_unlink"]},
        "skipped_reference_failed": skipped,
        "determinism": {"rerun_other_worker_count": det_checked, "mismatches": det_mismatch},
        "real_vs_stub": {"real": ["generator CLI, model loader, all four plugins (current working tree)", "CPython, pathlib, json, file system (tmpfs)"],
                         "simulated": ["PYTHONHASHSEED", "uuid.uuid4 stream", "flow of time: discrete-event clock (every reading of time.time/monotonic/perf_counter/process_time advances simulated time by the machine's step, 1 us - 0.7 s; sleep costs simulated time)", "developer tools on PATH (stand-ins for ruff/black/rustfmt/cargo/dotnet/git/... that mark every file they are given)", "an earlier generation of another model in the same interpreter", "model lists with repeated paths, overlapping declarations, differing metaData", "default text encoding (ASCII C locale vs UTF-8)", "wall clock (time.time/localtime/strftime, datetime.now/today shifted by days or years between runs)", "location and spelling (relative, trailing slash, ..) of the output directory, symlinked output directory, location of the model files", "python -O / -OO", "machine identity: cpu count, host name, terminal size, USER/HOME/COLUMNS/TMPDIR/CI environment variables", "os.scandir/os.listdir order", "process kill / ENOSPC / EIO at write-open, during write (torn), at unlink, at mkdir",
                                       "initial directory contents"], "stub": []},
        "violation_signatures": sorted(first_fail),
    }
    assumptions = [
        "model variants stay inside what all four plugins accept on the pinned tree (additions of unreferenced declarations, requests with typeName, drops, splits)",
        "owned files: python lsprotocol/types.py; rust lsprotocol/src/lib.rs and the marker region of <test-dir>/src/main.rs; dotnet lsprotocol/*.cs; testdata *.json at the output root",
        "formatters (ruff, rustfmt, dotnet format) are not part of the property and are not run",
    ]
    if skipped and len(judged) < max(2, len(ok) // 2):
        rep.harness_error(f"most histories were skipped because the reference run failed: {skipped}")
    return rep.finish(coverage, assumptions)


if __name__ == "__main__":
    core.ensure_hashseed0()
    sys.exit(main(sys.argv[1:]))

"""Extra battery for C19: a seeded sample of the vectors the testdata plugin of the tree under test
produces for a closed sub-model (valid and invalid ones; only sameness is judged).  Runs in its own
process so that a broken generator cannot take the C19 check down: on any failure the extra battery is
simply empty and the evidence says so."""
from __future__ import annotations

import json
import logging
import random
import sys


def main(argv):
    root, seed, count = argv[0], int(argv[1]), int(argv[2])
    sys.path.insert(0, root)
    sys.dont_write_bytecode = True
    from sim import core  # noqa
    import os

    os.environ["VERIF_REPO"] = root
    from sim.c16 import build_model
    import generator.model as gm
    from generator.plugins.testdata.testdata_generator import generate

    r = random.Random(seed)
    out = []
    seen = set()
    for k in range(4):
        doc = json.loads(build_model({"base": "sub", "sub_seed": r.randrange(2**40), "lo": 3, "hi": 6})[0])
        spec = gm.create_lsp_model([doc])
        lg = logging.getLogger("extras")
        lg.disabled = True
        data = generate(spec, lg)
        names = sorted(data)
        r.shuffle(names)
        for nm in names[: count // 4 + 1]:
            tname = nm.split("-", 1)[0]
            if nm in seen:
                continue
            seen.add(nm)
            out.append([f"td:{nm[:60]}", tname, json.loads(data[nm])])
    print(json.dumps(out[:count]))


if __name__ == "__main__":
    main(sys.argv[1:])

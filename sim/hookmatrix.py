"""Hook matrix for C19: for every type on which get_converter registers a hand-written structure hook
(recorded from the tree under test), inputs of every shape the hook has to tell apart: one example per
alternative (three depth variants: first alternatives / second alternatives / optional fields filled
in), lists mixing the list alternatives in both orders, lists whose later entries are broken, and a
set of wrong-shape probes.  Only sameness of outcomes is judged (against lone converters of the same
kind, and across detailed_validation on/off), so the examples need not be meaningful LSP.

Runs in its own process (a converter is created here, which the check's own processes never do before
forking); on any failure the matrix is simply empty and the evidence says so.  Output: one JSON line,
a list of [name, "expr:<type expression>", json value]."""
from __future__ import annotations

import collections.abc
import enum
import json
import sys
import typing as t


class Skip(Exception):
    pass


def main(argv):
    root, limit = argv[0], int(argv[1])
    sys.path.insert(0, root + "/packages/python")
    sys.dont_write_bytecode = True
    import attrs
    import cattrs
    import lsprotocol  # noqa
    import lsprotocol.types as lsp  # noqa
    from lsprotocol import converters

    recorded: list = []

    class Rec(cattrs.Converter):
        __slots__ = ()

        def register_structure_hook(self, cl, func=None):  # type: ignore[override]
            recorded.append(cl)
            return super().register_structure_hook(cl, func) if func is not None else super().register_structure_hook(cl)

    rec_conv = converters.get_converter(Rec())
    try:  # registrations a tree defers to first use
        rec_conv.unstructure(rec_conv.structure({"line": 1, "character": 2}, lsp.Position))
    except Exception:
        pass
    ref = converters.get_converter()
    ns = {"typing": t, "lsprotocol": lsprotocol, "NoneType": type(None), "builtins": __import__("builtins")}

    def expr_of(cl) -> t.Optional[str]:
        e = f"{cl.__module__}.{cl.__qualname__}" if isinstance(cl, type) else repr(cl)
        if "ForwardRef" in e or "<" in e:
            return None
        try:
            return e if eval(e, dict(ns)) == cl else None
        except Exception:
            return None

    def ex(tp, v: int, depth: int = 0):
        if depth > 6:
            raise Skip()
        origin = t.get_origin(tp)
        if tp is t.Any or tp is object:
            return "any"
        if tp is type(None) or tp is None:
            return None
        if tp is bool:
            return True
        if tp is str:
            return "s"
        if tp is int:
            return 1
        if tp is float:
            return 1.5
        if isinstance(tp, type) and issubclass(tp, enum.Enum):
            m = list(tp)
            return m[v % len(m)]
        if origin is t.Union:
            args = [a for a in t.get_args(tp) if a is not type(None)] or [type(None)]
            return ex(args[v % len(args)], v, depth + 1)
        if origin in SEQ:
            (a,) = t.get_args(tp) or (t.Any,)
            return [ex(a, v, depth + 1)]
        if origin is dict:
            a = (t.get_args(tp) or (str, t.Any))[1]
            return {"k": ex(a, v, depth + 1)}
        if origin is tuple:
            args = [a for a in t.get_args(tp) if a is not Ellipsis]
            return tuple(ex(a, v, depth + 1) for a in args)
        if origin is t.Literal:
            return t.get_args(tp)[0]
        if isinstance(tp, type) and attrs.has(tp):
            kw = {}
            for a in attrs.fields(tp):
                if not a.init:
                    continue
                required = a.default is attrs.NOTHING
                if required or (v == 2 and depth < 2):
                    if isinstance(a.type, str):
                        raise Skip()
                    try:
                        kw[a.name] = ex(a.type, v, depth + 1)
                    except Skip:
                        if required:
                            raise
            try:
                return tp(**kw)
            except Exception:
                raise Skip()
        raise Skip()

    def js_of(tp, v: int):
        try:
            o = ex(tp, v)
            js = ref.unstructure(o)
            return json.loads(json.dumps(js))
        except Skip:
            return Skip
        except Exception:
            return Skip

    SEQ = (list, collections.abc.Sequence, collections.abc.MutableSequence)
    probes = [None, True, 0, 1.5, "x", "", [], {}, [None], [{}], [[]], [1, "a"], {"kind": "x"}, {"uri": "file:///a"}, {"k": None}]
    out: list = []
    seen = set()

    def add(expr: str, tag: str, js) -> None:
        if js is Skip:
            return
        key = expr + "\0" + json.dumps(js, sort_keys=True)
        if key in seen:
            return
        seen.add(key)
        out.append([f"hm:{len(out)}:{tag}"[:70], "expr:" + expr, js])

    # the types hooked on the pinned tree stay in the matrix even if the tree under test no longer
    # registers (or no longer registers eagerly) a hook for them: the observation set must not shrink
    # with the code it observes
    baseline: list = []
    try:
        import os

        with open(os.path.join(os.path.dirname(os.path.abspath(__file__)), "hooked_types_baseline.json")) as f:
            for e_ in json.load(f):
                try:
                    baseline.append(eval(e_, dict(ns)))
                except Exception:
                    pass
    except (OSError, ValueError):
        pass
    if len(argv) > 2 and argv[2] == "--dump-types":
        print(json.dumps(sorted({e for e in (expr_of(c) for c in recorded) if e})))
        return
    types_done = set()
    for cl in baseline + recorded:
        e = expr_of(cl)
        if e is None or e in types_done:
            continue
        types_done.add(e)
        short = e.replace("lsprotocol.types.", "").replace("typing.", "")[:44]
        alts = list(t.get_args(cl)) if t.get_origin(cl) is t.Union else [cl]
        for i, a in enumerate(alts):
            for v in (0, 1, 2):
                add(e, f"{short}#alt{i}v{v}", js_of(a, v))
        lists = [(i, t.get_args(a)[0]) for i, a in enumerate(alts) if t.get_origin(a) in SEQ and t.get_args(a)]
        for i, ei in lists:
            for v1 in (0, 1):
                one = js_of(ei, v1)
                if one is Skip:
                    continue
                # a good entry followed by broken ones, and preceded by one
                for bad in ({}, None, "x", 1):
                    add(e, f"{short}#l{i}v{v1}+bad", [one, bad])
                add(e, f"{short}#bad+l{i}v{v1}", [{}, one])
                add(e, f"{short}#l{i}v{v1}x3", [one, one, one])
                for j, ej in lists:
                    if j == i:
                        continue
                    for v2 in (0, 1, 2):
                        two = js_of(ej, v2)
                        if two is not Skip:
                            add(e, f"{short}#l{i}v{v1}+l{j}v{v2}", [one, two])
        for k, p in enumerate(probes):
            add(e, f"{short}#probe{k}", p)
    # keep the whole matrix when it fits, otherwise an even sample (stable: by position)
    if limit and len(out) > limit:
        step = len(out) / limit
        out = [out[int(i * step)] for i in range(limit)]
    print(json.dumps({"types": len(types_done), "recorded": len(recorded), "items": out}))


if __name__ == "__main__":
    main(sys.argv[1:])

"""setup_cmd: verify (offline) that everything the checks need is present; nothing is fetched."""
import importlib
import shutil
import sys


def find_rustfmt():
    import os

    for cand in (shutil.which("rustfmt"), "/root/.cargo/bin/rustfmt", "/usr/local/cargo/bin/rustfmt"):
        if cand and os.path.exists(cand):
            return cand
    return None


def main() -> int:
    ok = True
    for mod in ("attrs", "cattrs", "jsonschema", "importlib_resources"):
        try:
            importlib.import_module(mod)
        except Exception as e:  # pragma: no cover
            print(f"setup: missing python module {mod}: {e}")
            ok = False
    if not hasattr(sys, "monitoring"):
        print("setup: note: sys.monitoring unavailable, the thread engine falls back to sys.settrace")
    rf = find_rustfmt()
    print(f"setup: rustfmt = {rf}")
    if rf is None:
        print("setup: rustfmt not found (C05 rust comparison will report a harness error)")
    print("setup: ok" if ok else "setup: FAILED")
    return 0 if ok else 2


if __name__ == "__main__":
    sys.exit(main())
